// vh_c10: correspondence cases + property oracle for C10 (store snapshots round-trip through save/load and are
// found by block range).
//
// Real code driven: store.Config.NewFullKV / NewPartialKV, SetBytes + Flush, FullKV/PartialKV Save + Write + Load
// on a local dstore ("file://…", extension zst, zstd compression, as in production), store.FullStateFileName /
// PartialFileName, store.parseFileName (through the verif hook VerifParseFileName), store.Config.ListSnapshotFiles,
// ExistsFullKV / ExistsPartialKV.
//
// Line protocol (answers mirror lean/Driver/C10.lean):
//
//	NAME start end
//	PARSE hexname
//	LIST contract|local below hexname,hexname,…   objects are created on disk and listed by the real
//	                   ListSnapshotFiles; "local" = plain dstore.LocalStore (its Walk ignores StopIteration),
//	                   "contract" = the same store behind a Walk that stops as the dstore interface documents
//	RT full|part init end kv dp            save, write, exists, read the object back, load into a fresh store
//	LOAD full|part hex                     load an object with this content into a fresh store
package main

import (
	"bytes"
	"context"
	"encoding/binary"
	"errors"
	"fmt"
	"io"
	"math"
	"os"
	"path/filepath"
	"sort"
	"strings"
	"sync"

	"github.com/streamingfast/dmetering"
	"github.com/streamingfast/dstore"
	"go.uber.org/zap"

	"github.com/streamingfast/substreams/block"
	pbsubstreams "github.com/streamingfast/substreams/pb/sf/substreams/v1"
	"github.com/streamingfast/substreams/reqctx"
	"github.com/streamingfast/substreams/storage/store"
	"github.com/streamingfast/substreams/storage/store/marshaller"
	pbstore "github.com/streamingfast/substreams/storage/store/marshaller/pb"

	"verifharness/common"
	"verifharness/fstore"
)

var out *common.Out
var workDir string
var ctx context.Context
var failCount = map[string]int{}
var outMu sync.Mutex

func count(k string) {
	outMu.Lock()
	defer outMu.Unlock()
	out.Count(k)
}

func fail(class, desc, line string) {
	outMu.Lock()
	defer outMu.Unlock()
	failCount[class]++
	if failCount[class] <= 3 {
		out.Fail(class, desc, line)
	} else {
		out.Count("oracle-fail:" + class)
	}
}

// ---------------------------------------------------------------- line encoding (same as vh_c18)

type kvPair struct {
	k string
	v []byte
}

func encKV(ps []kvPair) string {
	if len(ps) == 0 {
		return "_"
	}
	var sb strings.Builder
	for i, p := range ps {
		if i > 0 {
			sb.WriteByte(',')
		}
		sb.WriteString(common.Hex([]byte(p.k)))
		sb.WriteByte(':')
		sb.WriteString(common.Hex(p.v))
	}
	return sb.String()
}

func parseKV(s string) (ps []kvPair, dup bool) {
	if s == "_" {
		return nil, false
	}
	seen := map[string]bool{}
	for _, p := range strings.Split(s, ",") {
		kv := strings.Split(p, ":")
		k := string(common.Unhex(kv[0]))
		if seen[k] {
			dup = true
		}
		seen[k] = true
		ps = append(ps, kvPair{k, common.Unhex(kv[1])})
	}
	return
}

func encList(l []string) string {
	if len(l) == 0 {
		return "_"
	}
	var p []string
	for _, s := range l {
		p = append(p, common.Hex([]byte(s)))
	}
	return strings.Join(p, ",")
}

func parseList(s string) []string {
	if s == "_" {
		return nil
	}
	var out []string
	for _, p := range strings.Split(s, ",") {
		out = append(out, string(common.Unhex(p)))
	}
	return out
}

func showKVMap(m map[string][]byte) string {
	keys := make([]string, 0, len(m))
	for k := range m {
		keys = append(keys, k)
	}
	sort.Strings(keys)
	var sb strings.Builder
	for i, k := range keys {
		if i > 0 {
			sb.WriteByte(',')
		}
		sb.WriteString(common.Hex([]byte(k)))
		sb.WriteByte(':')
		sb.WriteString(common.Hex(m[k]))
	}
	return sb.String()
}

func showList(l []string) string {
	var p []string
	for _, s := range l {
		p = append(p, common.Hex([]byte(s)))
	}
	return strings.Join(p, ",")
}

// ---------------------------------------------------------------- harness-side cutting of the saved bytes

type field struct {
	num     uint64
	wt      int
	payload []byte
	raw     []byte
}

func splitFields(b []byte) (fs []field, ok bool) {
	for len(b) > 0 {
		tag, n := binary.Uvarint(b)
		if n <= 0 || tag&7 != 2 {
			return nil, false
		}
		start := b
		b = b[n:]
		l, m := binary.Uvarint(b)
		if m <= 0 || uint64(len(b)-m) < l {
			return nil, false
		}
		fs = append(fs, field{num: tag >> 3, wt: 2, payload: b[m : m+int(l)], raw: start[:n+m+int(l)]})
		b = b[m+int(l):]
	}
	return fs, true
}

// reorderStore re-orders the map entries of the saved bytes into the key order of the case line
// (Go map iteration order is random).
func reorderStore(b []byte, order []kvPair) string {
	fs, ok := splitFields(b)
	if !ok {
		return "layout-error:" + common.Hex(b)
	}
	chunks := map[string][]byte{}
	var tail []byte
	seen2 := false
	for _, f := range fs {
		switch f.num {
		case 1:
			if seen2 {
				return "layout-interleaved:" + common.Hex(b)
			}
			inner, ok := splitFields(f.payload)
			if !ok || len(inner) != 2 || inner[0].num != 1 || inner[1].num != 2 {
				return "layout-entry:" + common.Hex(b)
			}
			chunks[string(inner[0].payload)] = f.raw
		case 2:
			seen2 = true
			tail = append(tail, f.raw...)
		default:
			return "layout-field:" + common.Hex(b)
		}
	}
	if len(chunks) != len(order) {
		return "layout-count:" + common.Hex(b)
	}
	var res []byte
	for _, p := range order {
		c, ok := chunks[p.k]
		if !ok {
			return "layout-missing:" + common.Hex(b)
		}
		res = append(res, c...)
	}
	return "ok:" + common.Hex(append(res, tail...))
}

func vtErrClass(err error) string {
	switch {
	case errors.Is(err, pbstore.ErrIntOverflow):
		return "overflow"
	case errors.Is(err, io.ErrUnexpectedEOF):
		return "eof"
	case errors.Is(err, pbstore.ErrInvalidLength):
		return "invalid-length"
	case errors.Is(err, pbstore.ErrUnexpectedEndOfGroup):
		return "unexpected-end-group"
	}
	s := err.Error()
	switch {
	case strings.Contains(s, "wiretype end group for non-group"):
		return "end-group"
	case strings.Contains(s, "illegal tag"):
		return "illegal-tag"
	case strings.Contains(s, "wrong wireType"):
		return "wrong-wiretype"
	case strings.Contains(s, "illegal wireType"):
		return "illegal-wiretype"
	}
	return "other:" + strings.ReplaceAll(s, " ", "_")
}

// ---------------------------------------------------------------- real stores

var seq int

type env struct {
	dir  string
	base dstore.Store
	sub  dstore.Store // the objStore of the Config: <hash>/states
	cfg  *store.Config
}

// contractStore: a dstore whose Walk honours dstore.StopIteration as documented ("iteration stops right away"),
// like the GCS / S3 / Azure / mock stores do. dstore.LocalStore.Walk returns nil to filepath.Walk instead, which
// goes on with the next file.
type contractStore struct{ dstore.Store }

func (s contractStore) SubStore(p string) (dstore.Store, error) {
	in, err := s.Store.SubStore(p)
	if err != nil {
		return nil, err
	}
	return contractStore{in}, nil
}
func (s contractStore) Walk(ctx context.Context, prefix string, f func(string) error) error {
	var names []string
	if err := s.Store.Walk(ctx, prefix, func(n string) error { names = append(names, n); return nil }); err != nil {
		return err
	}
	for _, n := range names {
		if err := f(n); err != nil {
			if errors.Is(err, dstore.StopIteration) {
				return nil
			}
			return err
		}
	}
	return nil
}

func newEnv(init uint64) *env { return newEnvMode(init, false) }

func newEnvMode(init uint64, contract bool) *env {
	outMu.Lock()
	seq++
	dir := filepath.Join(workDir, fmt.Sprintf("s%d", seq))
	outMu.Unlock()
	base, err := dstore.NewStore("file://"+dir, "zst", "zstd", true)
	if err != nil {
		panic(err)
	}
	if contract {
		base = contractStore{base}
	}
	cfg, err := store.NewConfig("mod", init, "hash", pbsubstreams.Module_KindStore_UPDATE_POLICY_SET, "bytes", base)
	if err != nil {
		panic(err)
	}
	sub, err := base.SubStore("hash/states")
	if err != nil {
		panic(err)
	}
	return &env{dir, base, sub, cfg}
}
func (e *env) close() { os.RemoveAll(e.dir) }

func readObject(s dstore.Store, name string) ([]byte, error) {
	r, err := s.OpenObject(ctx, name)
	if err != nil {
		return nil, err
	}
	defer r.Close()
	return io.ReadAll(r)
}

func storeContent(iter func(func(string, []byte) error) error) map[string][]byte {
	m := map[string][]byte{}
	iter(func(k string, v []byte) error { m[k] = v; return nil })
	return m
}

func sameKV(m map[string][]byte, ps []kvPair) bool {
	if len(m) != len(ps) {
		return false
	}
	for _, p := range ps {
		v, ok := m[p.k]
		if !ok || !bytes.Equal(v, p.v) {
			return false
		}
	}
	return true
}
func sameList(a, b []string) bool {
	if len(a) != len(b) {
		return false
	}
	for i := range a {
		if a[i] != b[i] {
			return false
		}
	}
	return true
}

// fillable through the production path SetBytes + Flush (which refuses the empty key and the reserved prefix)
func settable(ps []kvPair) bool {
	for _, p := range ps {
		if p.k == "" || strings.HasPrefix(p.k, "__!__") || p.k[0] == 0xff {
			return false
		}
	}
	return true
}

func implRT(line string, partial bool, init, end uint64, ps []kvPair, dp []string, dup bool, faults string) string {
	if dup {
		return "dup-keys"
	}
	e := newEnv(init)
	defer e.close()
	if faults != "" {
		// the Config's object store fails transiently on the first writes (armed after the store has been filled)
		fst := fstore.New(e.base, faults, "") // the only write through the Config's store is Save's
		cfg, err := store.NewConfig("mod", init, "hash", pbsubstreams.Module_KindStore_UPDATE_POLICY_SET, "bytes", fst)
		if err != nil {
			panic(err)
		}
		e.cfg = cfg
		defer func() { count(fmt.Sprintf("rt:write-faults:%s", faults)) }()
	}
	logger := zap.NewNop()
	var sum uint64
	for _, p := range ps {
		sum += uint64(len(p.k) + len(p.v))
	}
	type st interface {
		SetBytes(ord uint64, key string, value []byte)
		Flush() error
		Load(ctx context.Context, file *store.FileInfo) error
		Iter(func(string, []byte) error) error
		SizeBytes() uint64
	}
	var a, b st
	var pa, pb *store.PartialKV
	var fa *store.FullKV
	if partial {
		pa, pb = e.cfg.NewPartialKV(init, logger), e.cfg.NewPartialKV(init, logger)
		a, b = pa, pb
	} else {
		fa = e.cfg.NewFullKV(logger)
		a, b = fa, e.cfg.NewFullKV(logger)
	}
	// content of the store to be saved
	if settable(ps) {
		count("rt:filled-by:SetBytes+Flush")
		for i, p := range ps {
			a.SetBytes(uint64(i+1), p.k, p.v)
		}
		if err := a.Flush(); err != nil {
			return "err:flush:" + strings.ReplaceAll(err.Error(), " ", "_")
		}
	} else {
		count("rt:filled-by:Load(empty or reserved key)")
		m := map[string][]byte{}
		for _, p := range ps {
			m[p.k] = p.v
		}
		content, _ := marshaller.Default().Marshal(&marshaller.StoreData{Kv: m})
		if err := e.sub.WriteObject(ctx, "seed", bytes.NewReader(content)); err != nil {
			return "err:seed"
		}
		if err := a.Load(ctx, &store.FileInfo{Filename: "seed"}); err != nil {
			return "err:seed-load"
		}
		e.sub.DeleteObject(ctx, "seed")
	}
	if partial {
		pa.DeletedPrefixes = dp
	}
	if !sameKV(storeContent(a.Iter), ps) {
		return "err:fill"
	}
	var file *store.FileInfo
	var werr error
	if partial {
		f, w, err := pa.Save(end)
		if err != nil {
			return "err:save"
		}
		file, werr = f, w.Write(ctx)
	} else {
		f, w, err := fa.Save(end)
		if err != nil {
			return "err:save"
		}
		file, werr = f, w.Write(ctx)
	}
	if werr != nil {
		return "err:write"
	}
	// the FileInfo Save returns
	if file.Range.StartBlock != init || file.Range.ExclusiveEndBlock != end || file.Partial != partial || file.WithTraceID {
		fail("C10/save-fileinfo", fmt.Sprintf("Save returned %+v %v", file, file.Range), line)
	}
	var exists bool
	if partial {
		exists, _ = e.cfg.ExistsPartialKV(ctx, init, end)
	} else {
		exists, _ = e.cfg.ExistsFullKV(ctx, end)
	}
	if !exists {
		fail("C10/exists-after-save", "Exists…KV is false right after Save+Write", line)
	}
	raw, err := readObject(e.sub, file.Filename)
	if err != nil {
		return "err:readback"
	}
	loadErr := b.Load(ctx, file)
	var loaded string
	if loadErr != nil {
		loaded = "err:unmarshal:" + vtErrClass(errors.Unwrap(loadErr))
		fail("C10/load-rejects-saved", loadErr.Error(), line)
	} else {
		got := storeContent(b.Iter)
		var gotDP []string
		wantDP := []string(nil)
		if partial {
			gotDP = pb.DeletedPrefixes
			wantDP = dp
		}
		loaded = fmt.Sprintf("ok/size=%d/kv=%s/dp=%s", b.SizeBytes(), showKVMap(got), showList(gotDP))
		if !sameKV(got, ps) {
			fail("C10/roundtrip-kv", "loaded keys/values differ from the saved ones", line)
		}
		if !sameList(gotDP, wantDP) {
			fail("C10/roundtrip-deleted-prefixes", fmt.Sprintf("loaded %q saved %q", gotDP, wantDP), line)
		}
		if b.SizeBytes() != sum {
			fail("C10/roundtrip-size", fmt.Sprintf("SizeBytes after Load = %d, content = %d", b.SizeBytes(), sum), line)
		}
	}
	// the name parses back to the range and kind
	if end < 1<<63 && init < 1<<63 {
		fi, ok := store.VerifParseFileName("mod", file.Filename)
		if !ok || fi.Range.StartBlock != init || fi.Range.ExclusiveEndBlock != end || fi.Partial != partial || fi.WithTraceID {
			fail("C10/name-does-not-parse-back", fmt.Sprintf("%s parses to %+v ok=%v", file.Filename, fi, ok), line)
		}
	}
	return fmt.Sprintf("name=%s exists=%v content=%s %s", file.Filename, exists, reorderStore(raw, ps), loaded)
}

// implRT2: two Saves of the same store with both writes still pending (orchestrator/stage/squash.go writes a merged
// snapshot asynchronously while the next segment is merged and saved): Save(end1), change the values, Save(end2), then
// the two Writes in either order; each file must hold the state of ITS Save.
func implRT2(line string, partial bool, init, end1, end2 uint64, ps1, ps2 []kvPair, dp []string, firstWriteFirst bool) string {
	e := newEnv(init)
	defer e.close()
	logger := zap.NewNop()
	type st interface {
		SetBytes(ord uint64, key string, value []byte)
		Flush() error
		Load(ctx context.Context, file *store.FileInfo) error
		Iter(func(string, []byte) error) error
		SizeBytes() uint64
	}
	var a st
	var pa *store.PartialKV
	var fa *store.FullKV
	if partial {
		pa = e.cfg.NewPartialKV(init, logger)
		a = pa
	} else {
		fa = e.cfg.NewFullKV(logger)
		a = fa
	}
	fill := func(ps []kvPair) bool {
		for i, p := range ps {
			a.SetBytes(uint64(i+1), p.k, p.v)
		}
		return a.Flush() == nil
	}
	save := func(end uint64) (*store.FileInfo, func() error, bool) {
		if partial {
			f, w, err := pa.Save(end)
			if err != nil {
				return nil, nil, false
			}
			return f, func() error { return w.Write(ctx) }, true
		}
		f, w, err := fa.Save(end)
		if err != nil {
			return nil, nil, false
		}
		return f, func() error { return w.Write(ctx) }, true
	}
	if !fill(ps1) {
		return "err:flush"
	}
	if partial {
		pa.DeletedPrefixes = dp
	}
	f1, w1, ok1 := save(end1)
	if !fill(ps2) {
		return "err:flush"
	}
	f2, w2, ok2 := save(end2)
	if !ok1 || !ok2 {
		return "err:save"
	}
	order := []func() error{w1, w2}
	if !firstWriteFirst {
		order = []func() error{w2, w1}
	}
	for _, w := range order {
		if err := w(); err != nil {
			return "err:write"
		}
	}
	show := func(f *store.FileInfo, want []kvPair, which string) string {
		var b st
		var pb *store.PartialKV
		if partial {
			pb = e.cfg.NewPartialKV(init, logger)
			b = pb
		} else {
			b = e.cfg.NewFullKV(logger)
		}
		if err := b.Load(ctx, f); err != nil {
			fail("C10/pending-write-holds-another-state", which+" snapshot does not load: "+err.Error(), line)
			return "err:unmarshal"
		}
		got := storeContent(b.Iter)
		if !sameKV(got, want) {
			fail("C10/pending-write-holds-another-state", fmt.Sprintf("the %s snapshot (%s) holds %s, the store held %s when it was saved", which, f.Filename, showKVMap(got), encKV(want)), line)
		}
		var gotDP []string
		if partial {
			gotDP = pb.DeletedPrefixes
		}
		return fmt.Sprintf("ok/size=%d/kv=%s/dp=%s", b.SizeBytes(), showKVMap(got), showList(gotDP))
	}
	return fmt.Sprintf("first=%s second=%s", show(f1, ps1, "first"), show(f2, ps2, "second"))
}

func implLoad(partial bool, content []byte) string {
	e := newEnv(0)
	defer e.close()
	name := "0000000010-0000000000.kv"
	if partial {
		name = "0000000010-0000000000.partial"
	}
	if err := e.sub.WriteObject(ctx, name, bytes.NewReader(content)); err != nil {
		return "err:write"
	}
	file := &store.FileInfo{Filename: name, Range: block.NewRange(0, 10), Partial: partial}
	if partial {
		p := e.cfg.NewPartialKV(0, zap.NewNop())
		if err := p.Load(ctx, file); err != nil {
			return "err:unmarshal:" + vtErrClass(errors.Unwrap(err))
		}
		return fmt.Sprintf("ok/size=%d/kv=%s/dp=%s", p.SizeBytes(), showKVMap(storeContent(p.Iter)), showList(p.DeletedPrefixes))
	}
	f := e.cfg.NewFullKV(zap.NewNop())
	if err := f.Load(ctx, file); err != nil {
		return "err:unmarshal:" + vtErrClass(errors.Unwrap(err))
	}
	return fmt.Sprintf("ok/size=%d/kv=%s/dp=", f.SizeBytes(), showKVMap(storeContent(f.Iter)))
}

func implParse(name string) string {
	res, _ := common.Recover(func() string {
		fi, ok := store.VerifParseFileName("mod", name)
		if !ok {
			return "none"
		}
		return fmt.Sprintf("ok %d %d partial=%v trace=%v", fi.Range.StartBlock, fi.Range.ExclusiveEndBlock, fi.Partial, fi.WithTraceID)
	})
	return res
}

// snapshot names the generator produced on purpose: (start, end, kind) -> name
type snap struct {
	start, end uint64
	partial    bool
}

func snapName(s snap) string {
	r := block.NewRange(s.start, s.end)
	if s.partial {
		return store.PartialFileName(r)
	}
	return store.FullStateFileName(r)
}

func safeParse(n string) (fi *store.FileInfo, ok bool) {
	defer func() {
		if r := recover(); r != nil {
			fi, ok = nil, false
		}
	}()
	return store.VerifParseFileName("mod", n)
}

func implList(line string, contract bool, below uint64, names []string) string {
	e := newEnvMode(0, contract)
	defer e.close()
	for _, n := range names {
		if err := e.sub.WriteObject(ctx, n, bytes.NewReader([]byte{})); err != nil {
			return "err:write"
		}
	}
	res, _ := common.Recover(func() string {
		files, err := e.cfg.ListSnapshotFiles(ctx, below)
		if err != nil {
			return "err"
		}
		var p []string
		for _, f := range files {
			k := "f"
			if f.Partial {
				k = "p"
			}
			p = append(p, fmt.Sprintf("%d-%d:%s", f.Range.StartBlock, f.Range.ExclusiveEndBlock, k))
		}
		// ---- oracle: every object that carries the name of a snapshot [s,e) with s < e ≤ below (block numbers of
		// at most 10 digits in the whole directory) is listed with its kind
		inScope := true
		var saved []snap
		for _, n := range names {
			fi, ok := safeParse(n)
			if !ok || fi.WithTraceID {
				continue
			}
			if fi.Range.StartBlock >= 1e10 || fi.Range.ExclusiveEndBlock >= 1e10 {
				inScope = false
			}
			s := snap{fi.Range.StartBlock, fi.Range.ExclusiveEndBlock, fi.Partial}
			if snapName(s) == n {
				if s.start >= s.end {
					inScope = false // an empty or reversed range is never saved (C13: segments are non-empty)
				}
				saved = append(saved, s)
			} else {
				inScope = false // foreign object whose name happens to parse: outside the property
			}
		}
		if inScope {
			out.Count("list:oracle-evaluated")
			listed := map[string]bool{}
			for _, q := range p {
				listed[q] = true
			}
			for _, s := range saved {
				if s.end <= below {
					k := "f"
					if s.partial {
						k = "p"
					}
					if !listed[fmt.Sprintf("%d-%d:%s", s.start, s.end, k)] {
						fail("C10/listing-misses-snapshot", fmt.Sprintf("snapshot %s (ends at or below %d) is not returned", snapName(s), below), line)
					}
				}
			}
		} else {
			out.Count("list:outside-property(>10 digits, empty range or foreign parsable name)")
		}
		return "ok " + strings.Join(p, ";")
	})
	return res
}

func nameHex(n string) string { return common.Hex([]byte(n)) }

func runLine(line string) (string, bool) {
	w := strings.Fields(line)
	switch w[0] {
	case "NAME":
		r := block.NewRange(common.Atou(w[1]), common.Atou(w[2]))
		return fmt.Sprintf("full=%s partial=%s", store.FullStateFileName(r), store.PartialFileName(r)), true
	case "PARSE":
		a := implParse(string(common.Unhex(w[1])))
		return a, strings.HasPrefix(a, "ok")
	case "LIST":
		var names []string
		if w[3] != "_" {
			for _, h := range strings.Split(w[3], ",") {
				names = append(names, string(common.Unhex(h)))
			}
		}
		a := implList(line, w[1] == "contract", common.Atou(w[2]), names)
		return a, len(a) > 3
	case "RT":
		ps, dup := parseKV(w[4])
		faults := ""
		if len(w) > 6 { // f:<pattern>
			faults = strings.TrimPrefix(w[6], "f:")
		}
		return implRT(line, w[1] == "part", common.Atou(w[2]), common.Atou(w[3]), ps, parseList(w[5]), dup, faults), len(ps) > 0
	case "RT2":
		// RT2 full|part init end1 end2 kv1 kv2 dp 12|21   (kv2: the same keys with other values)
		ps1, d1 := parseKV(w[5])
		ps2, d2 := parseKV(w[6])
		if d1 || d2 {
			return "dup-keys", false
		}
		return implRT2(line, w[1] == "part", common.Atou(w[2]), common.Atou(w[3]), common.Atou(w[4]), ps1, ps2, parseList(w[7]), w[8] == "12"), true
	case "LOAD":
		a := implLoad(w[1] == "part", common.Unhex(w[2]))
		return a, strings.HasPrefix(a, "ok") && !strings.Contains(a, "kv=/")
	}
	return "bad-op", false
}

func emit(line string) string {
	nt := false
	ans, _ := common.Recover(func() string {
		a, n := runLine(line)
		nt = n
		return a
	})
	out.Case(line, ans, nt)
	op := strings.Fields(line)[0]
	out.Count("op:" + op)
	switch {
	case ans == "panic":
		out.Count("answer:" + op + ":panic")
	case strings.HasPrefix(ans, "err") || strings.Contains(ans, " err:"):
		i := strings.Index(ans, "err")
		out.Count("answer:" + op + ":" + ans[i:])
	case ans == "none":
		out.Count("answer:" + op + ":none")
	default:
		out.Count("answer:" + op + ":ok")
	}
	return ans
}

// ---------------------------------------------------------------- generators

func genBytes(r *common.Rng, n int) []byte {
	b := make([]byte, n)
	for i := range b {
		b[i] = byte(r.Intn(256))
	}
	return b
}

var small bool

func genLen(r *common.Rng) int {
	x := r.Intn(120)
	switch {
	case x < 8:
		return 0
	case small:
		return r.Range(1, 16)
	case x < 14:
		return r.Range(120, 135)
	case x < 16:
		return r.Range(16380, 16390)
	case x < 19:
		return r.Range(200, 3000)
	default:
		return r.Range(1, 24)
	}
}

func genKey(r *common.Rng, binaryKey bool, allowEmpty bool) string {
	n := genLen(r)
	if n == 0 && !allowEmpty {
		n = 1
	}
	if binaryKey {
		return string(genBytes(r, n))
	}
	b := make([]byte, n)
	for i := range b {
		b[i] = byte(r.Range(0x20, 0x7e))
	}
	return string(b)
}

func genStore(r *common.Rng, nKeys int, binaryKeys, allowEmpty bool, nPrefix int) ([]kvPair, []string) {
	seen := map[string]bool{}
	var ps []kvPair
	for len(ps) < nKeys {
		k := genKey(r, binaryKeys && r.Bool(), allowEmpty)
		if seen[k] {
			k = k + fmt.Sprintf("#%d", len(ps))
		}
		seen[k] = true
		ps = append(ps, kvPair{k, genBytes(r, genLen(r))})
	}
	var dp []string
	for i := 0; i < nPrefix; i++ {
		dp = append(dp, genKey(r, binaryKeys && r.Bool(), true))
	}
	return ps, dp
}

func genBlock(r *common.Rng) uint64 {
	switch r.Intn(14) {
	case 0:
		return 0
	case 1:
		return 1e10 - 1 - uint64(r.Intn(3))
	case 2:
		return 1e10 + uint64(r.Intn(3))
	case 3:
		return 1<<63 - 1 - uint64(r.Intn(2))
	case 4:
		return 1<<63 + uint64(r.Intn(2))
	case 5:
		return 1<<64 - 1
	case 6:
		return r.U64() >> uint(r.Intn(64))
	case 7:
		return uint64(r.Intn(20)) * 1000
	default:
		return uint64(r.Intn(400_000_000))
	}
}

func mutate(r *common.Rng, b []byte) []byte {
	c := append([]byte{}, b...)
	switch r.Intn(6) {
	case 0:
		if len(c) > 0 {
			c = c[:r.Intn(len(c))]
		}
	case 1:
		if len(c) > 0 {
			c[r.Intn(len(c))] ^= byte(1 << uint(r.Intn(8)))
		}
	case 2:
		if len(c) > 0 {
			c[r.Intn(len(c))] = byte(r.Intn(256))
		}
	case 3:
		i := r.Intn(len(c) + 1)
		c = append(c[:i], append(genBytes(r, r.Range(1, 3)), c[i:]...)...)
	case 4:
		if len(c) > 0 {
			i := r.Intn(len(c))
			c = append(c[:i], c[i+1:]...)
		}
	default: // duplicate a chunk (duplicate keys: size is counted twice, content once)
		c = append(c, b...)
	}
	return c
}

// file names: real snapshot names, names with a trace id, foreign names
func genJunkName(r *common.Rng) string {
	d := func(n int) string {
		s := ""
		for i := 0; i < n; i++ {
			s += string(rune('0' + r.Intn(10)))
		}
		return s
	}
	tid := []string{"abcdef0123456789", "t", "kv", "partial", "x-y", "12-34", "é"}[r.Intn(7)]
	switch r.Intn(16) {
	case 0:
		return "foo"
	case 1:
		return d(10) + "-" + d(10) + "." + tid + ".partial"
	case 2:
		return d(10) + "-" + d(10) + "." + tid + ".kv"
	case 3:
		return "x" + d(10) + "-" + d(10) + ".kv"
	case 4:
		return d(r.Range(1, 4)) + "-" + d(r.Range(1, 4)) + ".partial"
	case 5:
		return d(10) + "-" + d(10) + ".kvx"
	case 6:
		return d(10) + "-" + d(10) + ".output"
	case 7:
		return d(10) + "_" + d(10) + ".kv"
	case 8:
		return d(10) + "-" + d(10) + "..kv"
	case 9:
		return d(10) + "-.kv"
	case 10:
		return d(10) + "-" + d(10) + ".a.b.kv"
	case 11:
		return "a" + d(3) + "-" + d(2) + ".zz." + d(4) + "-" + d(4) + ".partial"
	case 12:
		return d(r.Range(18, 22)) + "-" + d(r.Range(18, 22)) + ".kv"
	case 13:
		return "9223372036854775807-9223372036854775808.kv"
	case 14:
		return d(10) + "-" + d(10) + "." + tid + ".kv.partial"
	default:
		return d(10) + "-" + d(10) + ".partial.kv"
	}
}

func fsSafe(n string) bool {
	if n == "" || n == "." || n == ".." || len(n) > 180 || strings.HasSuffix(n, ".tmp") {
		return false
	}
	for _, c := range []byte(n) {
		if c == '/' || c == 0 || c < 0x20 || c > 0x7e {
			return false
		}
	}
	return true
}

// no name may be a proper prefix of another one: the object store orders by name + ".zst"
func prefixFree(names []string) bool {
	for i, a := range names {
		for j, b := range names {
			if i != j && strings.HasPrefix(b, a) {
				return false
			}
		}
	}
	return true
}

func main() {
	o := common.ParseFlags()
	out = common.NewOut(o.Out)
	absOut, err := filepath.Abs(o.Out)
	if err != nil {
		panic(err)
	}
	workDir = filepath.Join(absOut, "scratch")
	os.MkdirAll(workDir, 0o755)
	ctx = dmetering.WithBytesMeter(reqctx.WithLogger(context.Background(), zap.NewNop()))
	out.Rule = "RT: generated full and partial stores (0..6000 distinct keys, ascii and arbitrary binary keys, the empty key, empty values, lengths around 127/128 and 16383/16384, 0..3 deleted prefixes, initial/end blocks 0, around 10^10, 2^63, 2^64-1) saved with the real Save+Write on a local zstd dstore and loaded into a fresh store; LOAD: every saved object content, mutated contents (truncated, flipped, duplicated chunks) loaded by the real Load; NAME/PARSE: block numbers of 1..20 digits, names with trace ids, foreign names, unanchored matches; LIST: random directories of snapshot names (+ trace-id and foreign names; one directory in ten holds 60..140 trace-id names, i.e. on both sides of the 100 deletions a walk allows itself) created on disk and listed by the real ListSnapshotFiles for below = 0, inside, at and beyond the saved ends; non-trivial = at least one key / name parses / listing non-empty; distinct by case line"
	defer out.Finish()
	defer os.RemoveAll(workDir)

	if lines := o.ReplayLines(); lines != nil {
		for _, l := range lines {
			emit(l)
		}
		return
	}
	rng := common.NewRng(o.Seed)
	th := o.Thorough()
	scale := 1
	if th {
		scale = 5
	}

	// ---- names and parsing
	for i := 0; i < 3000*scale; i++ {
		a, b := genBlock(rng), genBlock(rng)
		emit(fmt.Sprintf("NAME %d %d", a, b))
		r := block.NewRange(a, b)
		emit("PARSE " + nameHex(store.FullStateFileName(r)))
		emit("PARSE " + nameHex(store.PartialFileName(r)))
	}
	for i := 0; i < 6000*scale; i++ {
		n := genJunkName(rng)
		if rng.Chance(1, 5) {
			n = string(mutate(rng, []byte(n)))
		}
		if n == "" || strings.ContainsAny(n, " \n\r\t") {
			continue
		}
		emit("PARSE " + nameHex(n))
	}

	// ---- listings
	for i := 0; i < 200*scale; i++ {
		init := uint64(rng.Intn(3)) * 100
		seg := uint64([]int{10, 100, 1000, 7}[rng.Intn(4)])
		var names []string
		var ends []uint64
		nFull := rng.Range(0, 6)
		base := init - init%seg
		wide := rng.Chance(1, 12) // block numbers around 10^10: outside the property, inside the model
		if wide {
			base = 1e10 - seg*uint64(rng.Range(1, 4))
		}
		for j := 0; j < nFull; j++ {
			e := base + seg*uint64(rng.Range(1, 12))
			st := init
			if wide {
				st = base
			}
			names = append(names, snapName(snap{st, e, false}))
			ends = append(ends, e)
		}
		for j := rng.Range(0, 6); j > 0; j-- {
			s := base + seg*uint64(rng.Range(0, 12))
			e := s + seg*uint64(rng.Range(1, 3))
			names = append(names, snapName(snap{s, e, true}))
			ends = append(ends, e, s)
		}
		for j := rng.Range(0, 3); j > 0; j-- {
			if n := genJunkName(rng); fsSafe(n) {
				names = append(names, n)
			}
		}
		// a directory left by an older release: more than 100 files with a trace id in their names (the walk deletes
		// at most 100 of them per call; none of them, deleted or not, is a snapshot)
		if i%10 == 3 || rng.Chance(1, 15) {
			nLegacy := rng.Range(101, 140)
			if i%20 == 3 {
				nLegacy = rng.Range(60, 100)
			}
			for j := 0; j < nLegacy; j++ {
				s := base + seg*uint64(rng.Range(0, 12))
				e := s + seg*uint64(rng.Range(1, 3))
				ext := []string{"partial", "kv"}[rng.Intn(2)]
				names = append(names, fmt.Sprintf("%010d-%010d.%08x%04x.%s", e, s, rng.Intn(1<<30), j, ext))
			}
			out.Count("list:legacy-dir(>100 trace-id names)")
		}
		if rng.Chance(1, 25) { // an empty range
			names = append(names, snapName(snap{base + seg, base + seg, rng.Bool()}))
		}
		// dedupe, shuffle
		seen := map[string]bool{}
		var uniq []string
		for _, n := range names {
			if !seen[n] {
				seen[n] = true
				uniq = append(uniq, n)
			}
		}
		for j := len(uniq) - 1; j > 0; j-- {
			k := rng.Intn(j + 1)
			uniq[j], uniq[k] = uniq[k], uniq[j]
		}
		if !prefixFree(uniq) {
			out.Count("list:dropped(not prefix free)")
			continue
		}
		belows := []uint64{0, math.MaxUint64, base + seg*uint64(rng.Range(0, 13))}
		if len(ends) > 0 {
			belows = append(belows, ends[rng.Intn(len(ends))], ends[rng.Intn(len(ends))]+1)
		}
		var hx []string
		for _, n := range uniq {
			hx = append(hx, nameHex(n))
		}
		arg := "_"
		if len(hx) > 0 {
			arg = strings.Join(hx, ",")
		}
		for _, b := range belows {
			emit(fmt.Sprintf("LIST contract %d %s", b, arg))
			emit(fmt.Sprintf("LIST local %d %s", b, arg))
		}
	}

	// ---- save / load round trips under transient write failures (saveStore's retry loop, real back-off sleeps):
	// computed concurrently, emitted in order
	{
		pats := []string{"a", "h", "g", "0", "ah", "ga", "hh", "0a"}
		if th {
			pats = append(pats, "aa", "gg", "h0", "a0h", "gha", "aaa")
		}
		var lines []string
		for i, pat := range pats {
			for _, partial := range []bool{false, true} {
				n := []int{1, 3, 40}[(i+map[bool]int{false: 0, true: 1}[partial])%3]
				np := 0
				kind := "full"
				if partial {
					np, kind = 2, "part"
				}
				ps, dp := genStore(rng, n, rng.Bool(), false, np)
				lines = append(lines, fmt.Sprintf("RT %s %d %d %s %s f:%s", kind, 10*uint64(i), 10*uint64(i)+10, encKV(ps), encList(dp), pat))
			}
		}
		type res struct {
			ans string
			nt  bool
		}
		results := make([]res, len(lines))
		var wg sync.WaitGroup
		for i, l := range lines {
			wg.Add(1)
			go func(i int, l string) {
				defer wg.Done()
				a, _ := common.Recover(func() string {
					x, n := runLine(l)
					results[i].nt = n
					return x
				})
				results[i].ans = a
			}(i, l)
		}
		wg.Wait()
		for i, l := range lines {
			out.Case(l, results[i].ans, results[i].nt)
			out.Count("op:RT-with-write-faults")
		}
	}

	// ---- two Saves with both writes pending
	for i := 0; i < 40*scale; i++ {
		partial := rng.Bool()
		n := rng.Range(1, 8)
		small = true
		ps1, dp := genStore(rng, n, false, false, map[bool]int{false: 0, true: 2}[partial])
		small = false
		if !settable(ps1) {
			continue
		}
		// the second state: same keys, other values, never longer in total (a snapshot that does not grow)
		ps2 := make([]kvPair, len(ps1))
		for j, p := range ps1 {
			v := make([]byte, len(p.v))
			for k := range v {
				v[k] = p.v[k] ^ byte(1+rng.Intn(200))
			}
			if len(v) > 0 && rng.Chance(1, 3) {
				v = v[:len(v)-1]
			}
			ps2[j] = kvPair{p.k, v}
		}
		kind := "full"
		if partial {
			kind = "part"
		}
		init := uint64(rng.Range(0, 50))
		end1 := init + uint64(rng.Range(1, 50))
		end2 := end1 + uint64(rng.Range(1, 50))
		emit(fmt.Sprintf("RT2 %s %d %d %d %s %s %s %s", kind, init, end1, end2, encKV(ps1), encKV(ps2), encList(dp), []string{"12", "21"}[rng.Intn(2)]))
	}

	// ---- save / load round trips
	nRT := 350 * scale
	for i := 0; i < nRT; i++ {
		n := 0
		switch {
		case i%175 == 174:
			n = rng.Range(1000, 2000)
			if th {
				n = rng.Range(2000, 6000)
			}
		case i%9 == 0:
			n = 0
		case i%9 == 1:
			n = 1
		case i%9 == 2:
			n = rng.Range(20, 60)
		default:
			n = rng.Range(2, 6)
		}
		partial := rng.Bool()
		small = n > 6
		np := 0
		if partial {
			np = []int{0, 1, 3}[rng.Intn(3)]
		}
		ps, dp := genStore(rng, n, rng.Chance(1, 2), rng.Chance(1, 6), np)
		small = false
		init, end := genBlock(rng), genBlock(rng)
		kind := "full"
		if partial {
			kind = "part"
		}
		out.Count("rt:" + kind + ":keys:" + bucket(len(ps)))
		ans := emit(fmt.Sprintf("RT %s %d %d %s %s", kind, init, end, encKV(ps), encList(dp)))
		// the saved content, as is and damaged, through Load
		if i := strings.Index(ans, "content=ok:"); i >= 0 {
			hex := strings.Fields(ans[i+len("content=ok:"):])[0]
			content := common.Unhex(hex)
			if len(content) < 4096 {
				emit(fmt.Sprintf("LOAD %s %s", kind, common.Hex(content)))
				other := "full"
				if !partial {
					other = "part"
				}
				emit(fmt.Sprintf("LOAD %s %s", other, common.Hex(content)))
				for j := 0; j < 3; j++ {
					emit(fmt.Sprintf("LOAD %s %s", kind, common.Hex(mutate(rng, content))))
				}
			}
		}
	}
}

func bucket(n int) string {
	switch {
	case n == 0:
		return "0"
	case n == 1:
		return "1"
	case n <= 6:
		return "2-6"
	case n <= 100:
		return "7-100"
	case n <= 999:
		return "101-999"
	default:
		return "1000+"
	}
}

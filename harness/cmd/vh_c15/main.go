// vh_c15: correspondence cases + property oracle for C15 (block-index filtering never changes results).
//
// Real code driven:
//   - sqe.Parse (and, through the verif hook sqe.VerifLex, the real lexer's token stream)
//   - sqe.VerifOptimize (= optimizeExpression), sqe.RoaringBitmapsApply, sqe.KeysApply
//   - the real index build: cache.Engine.NewBuffer/HandleFinal/EndOfStream with a real execout.Writer
//     (index writer) and index.Writer, index.File.Save -> dstore -> index.File.Load
//   - index.NewBlockIndex + exec.RunModule (whose first step is skipFromIndex) for the skip decisions,
//     with the precomputed bitmap of the loaded index file and on the fly from the block's own keys.
//
// Case lines (formats mirror lean/Driver/C15.lean):
//
//	PARSE <maxDepth> <hex input>            -> toks=<tokens> res=<expr | err:chain>
//	OPT <expr>                              -> <expr>
//	EVAL <expr> <items>                     -> bm=<set|panic> ks=<set|panic>
//	EVALIDX <expr> <index>                  -> bm=<set|panic>
//	KNIL <expr>                             -> true|false|panic
//	SKIP <expr> <lo> <hi> <items>           -> pre=<0/1/p per block> fly=<…> excl=<bool>
//	SYS <maxDepth> <hex query> <lo> <hi> <items>  -> see sys.go (real Tier1 service, filtered module, no index file)
package main

import (
	"context"
	"errors"
	"fmt"
	"net/url"
	"regexp"
	"sort"
	"strconv"
	"strings"

	"github.com/RoaringBitmap/roaring/roaring64"
	"github.com/streamingfast/dstore"
	"go.uber.org/zap"
	"google.golang.org/protobuf/proto"

	"github.com/streamingfast/substreams/block"
	"github.com/streamingfast/substreams/manifest"
	"github.com/streamingfast/substreams/metrics"
	pbindex "github.com/streamingfast/substreams/pb/sf/substreams/index/v1"
	pbsubstreams "github.com/streamingfast/substreams/pb/sf/substreams/v1"
	"github.com/streamingfast/substreams/pipeline/cache"
	"github.com/streamingfast/substreams/pipeline/exec"
	"github.com/streamingfast/substreams/reqctx"
	"github.com/streamingfast/substreams/sqe"
	"github.com/streamingfast/substreams/storage/execout"
	"github.com/streamingfast/substreams/storage/index"
	"github.com/streamingfast/substreams/wasm"

	"verifharness/common"
	"verifharness/fstore"
)

var out *common.Out
var ctx = reqctx.WithReqStats(context.Background(), metrics.NewReqStats(&metrics.Config{}, zap.NewNop()))

// ---------------------------------------------------------------- canonical text

func showExpr(e sqe.Expression) string {
	var sb strings.Builder
	var rec func(e sqe.Expression)
	list := func(tag string, cs []sqe.Expression) {
		sb.WriteString(tag + "(")
		for i, c := range cs {
			if i > 0 {
				sb.WriteByte(',')
			}
			rec(c)
		}
		sb.WriteByte(')')
	}
	rec = func(e sqe.Expression) {
		switch v := e.(type) {
		case *sqe.KeyTerm:
			sb.WriteString("K(" + common.Hex([]byte(v.Value.Value)) + "," + common.Hex([]byte(v.Value.QuotingChar)) + ")")
		case *sqe.AndExpression:
			list("A", v.Children)
		case *sqe.OrExpression:
			list("O", v.Children)
		case *sqe.ParenthesisExpression:
			sb.WriteString("P(")
			rec(v.Child)
			sb.WriteByte(')')
		case *sqe.NotExpression:
			sb.WriteString("N(")
			rec(v.Child)
			sb.WriteByte(')')
		default:
			sb.WriteString("?")
		}
	}
	rec(e)
	return sb.String()
}

// readExpr parses the canonical text back into a real AST (for hand-built expressions and replay).
func readExpr(s string) sqe.Expression {
	pos := 0
	var rec func() sqe.Expression
	rec = func() sqe.Expression {
		tag := s[pos]
		pos += 2 // tag and '('
		switch tag {
		case 'K':
			i := strings.IndexByte(s[pos:], ',')
			a := s[pos : pos+i]
			pos += i + 1
			j := strings.IndexByte(s[pos:], ')')
			b := s[pos : pos+j]
			pos += j + 1
			return &sqe.KeyTerm{Value: &sqe.StringLiteral{Value: string(common.Unhex(a)), QuotingChar: string(common.Unhex(b))}}
		case 'A', 'O':
			cs := []sqe.Expression{}
			for s[pos] != ')' {
				if s[pos] == ',' {
					pos++
					continue
				}
				cs = append(cs, rec())
			}
			pos++
			if tag == 'A' {
				return &sqe.AndExpression{Children: cs}
			}
			return &sqe.OrExpression{Children: cs}
		case 'P':
			c := rec()
			pos++
			return &sqe.ParenthesisExpression{Child: c}
		case 'N':
			c := rec()
			pos++
			return &sqe.NotExpression{Child: c}
		}
		panic("bad expr text: " + s)
	}
	return rec()
}

var tokLetter = map[string]string{"NotOperator": "M", "OrOperator": "O", "AndOperator": "A", "LeftParenthesis": "L", "RightParenthesis": "R"}

func showToks(ts []sqe.VerifToken) string {
	if len(ts) == 0 {
		return "-"
	}
	p := make([]string, len(ts))
	for i, t := range ts {
		switch t.Type {
		case "Quoting":
			p[i] = "Q" + common.Hex([]byte(t.Value))
		case "Name":
			p[i] = "N" + common.Hex([]byte(t.Value))
		case "Space":
			p[i] = "S" + common.Hex([]byte(t.Value))
		default:
			if l, ok := tokLetter[t.Type]; ok {
				p[i] = l
			} else {
				p[i] = "?" + t.Type
			}
		}
	}
	return strings.Join(p, ",")
}

var posSuffix = regexp.MustCompile(` at (line \d+ )?column \d+$`)

func errTag(msg string) string {
	msg = posSuffix.ReplaceAllString(msg, "")
	const unary = "expected a key term, minus sign or left parenthesis, got "
	const parenGot = "expecting closing parenthesis after expression, got "
	const keyGot = "expecting key term, either a string or quoted string but got "
	switch {
	case msg == "missing expression after implicit 'and' clause":
		return "iand"
	case msg == "missing expression after 'and' clause":
		return "and"
	case msg == "missing expression after 'or' clause":
		return "or"
	case msg == "invalid expression after opening parenthesis":
		return "paren"
	case msg == "unable to parse right hand side expression":
		return "rhs"
	case msg == "NOT operator (-) is not supported in the block filter":
		return "not"
	case msg == unary+"end of input":
		return "unary-eof"
	case strings.HasPrefix(msg, unary):
		return "unary-got-" + strings.TrimPrefix(msg, unary)
	case msg == "unexpected right parenthesis, expected right hand side expression or end of input":
		return "rparen"
	case msg == "expecting closing parenthesis, got end of input":
		return "paren-eof"
	case strings.HasPrefix(msg, parenGot):
		return "paren-got-" + strings.TrimPrefix(msg, parenGot)
	case strings.HasPrefix(msg, "expecting closing quoting char ") && strings.HasSuffix(msg, ", got end of input"):
		return "quote-eof"
	case msg == "an empty string is not valid":
		return "empty-string"
	case strings.HasPrefix(msg, keyGot):
		return "keyterm-got-" + strings.TrimPrefix(msg, keyGot)
	case strings.HasSuffix(msg, "is not valid binary right hand side expression"):
		return "rhs-invalid-" + strings.Fields(msg)[2]
	case msg == "expression is too long, too much ORs or parenthesis expressions":
		return "too-deep"
	case strings.HasPrefix(msg, "new parser"):
		return "lex-error"
	}
	return "other[" + strings.ReplaceAll(msg, " ", "_") + "]"
}

func showErr(err error) string {
	var chain []string
	for err != nil {
		inner := errors.Unwrap(err)
		if inner == nil {
			chain = append(chain, errTag(err.Error()))
			break
		}
		chain = append(chain, errTag(strings.TrimSuffix(err.Error(), ": "+inner.Error())))
		err = inner
	}
	return "err:" + strings.Join(chain, ">")
}

func showSet(a []uint64) string {
	if len(a) == 0 {
		return "-"
	}
	sort.Slice(a, func(i, j int) bool { return a[i] < a[j] })
	p := make([]string, 0, len(a))
	for i, x := range a {
		if i > 0 && a[i-1] == x {
			continue
		}
		p = append(p, strconv.FormatUint(x, 10))
	}
	return strings.Join(p, ",")
}

// ---------------------------------------------------------------- items / index text

type item struct {
	blk  uint64
	keys []string
}

func showItems(its []item) string {
	if len(its) == 0 {
		return "-"
	}
	p := make([]string, len(its))
	for i, it := range its {
		ks := make([]string, len(it.keys))
		for j, k := range it.keys {
			ks[j] = common.Hex([]byte(k))
		}
		p[i] = fmt.Sprintf("%d:%s", it.blk, strings.Join(ks, ","))
	}
	return strings.Join(p, ";")
}

func readItems(s string) []item {
	if s == "-" {
		return nil
	}
	var res []item
	for _, p := range strings.Split(s, ";") {
		ab := strings.SplitN(p, ":", 2)
		it := item{blk: common.Atou(ab[0])}
		if ab[1] != "" {
			for _, k := range strings.Split(ab[1], ",") {
				it.keys = append(it.keys, string(common.Unhex(k)))
			}
		}
		res = append(res, it)
	}
	return res
}

type idxEntry struct {
	key    string
	blocks []uint64
}

func showIndex(ix []idxEntry) string {
	if len(ix) == 0 {
		return "-"
	}
	p := make([]string, len(ix))
	for i, e := range ix {
		bs := make([]string, len(e.blocks))
		for j, b := range e.blocks {
			bs[j] = strconv.FormatUint(b, 10)
		}
		p[i] = common.Hex([]byte(e.key)) + "=" + strings.Join(bs, ",")
	}
	return strings.Join(p, ";")
}

func readIndex(s string) map[string]*roaring64.Bitmap {
	m := map[string]*roaring64.Bitmap{}
	if s == "-" {
		return m
	}
	for _, p := range strings.Split(s, ";") {
		ab := strings.SplitN(p, "=", 2)
		bm := roaring64.New()
		if ab[1] != "" {
			for _, b := range strings.Split(ab[1], ",") {
				bm.Add(common.Atou(b))
			}
		}
		m[string(common.Unhex(ab[0]))] = bm
	}
	return m
}

// ---------------------------------------------------------------- the real index build

const indexModName = "idx"
const indexMod2Name = "idx2"
const filteredModName = "filtered"

func marshalKeys(keys []string) []byte {
	b, err := proto.Marshal(&pbindex.Keys{Keys: keys})
	if err != nil {
		panic(err)
	}
	return b
}

type builtIndex struct {
	polluted string                            // non-empty: the index file of a second module built by the same job is wrong
	indices map[string]*roaring64.Bitmap       // as loaded from the index file
	buffers map[uint64]execout.ExecutionOutput // per block, with the index module's output when it has one
}

// buildRealIndex runs the real Engine over the items (one final block per item, in the order given),
// lets EndOfStream build + save the index file and loads it back through index.File.Load.
func buildRealIndex(its []item, lo, hi uint64, faults string) *builtIndex {
	logger := zap.NewNop()
	var base dstore.Store
	base, err := dstore.NewMemoryStore(&url.URL{Scheme: "memory", Path: "/c15"}, "", "", true)
	if err != nil {
		panic(err)
	}
	if faults != "" {
		// the first writes (output file, index file) fail transiently: index.File.Save / execout.File.Save retry them
		base = fstore.New(base, faults, "")
	}
	mod := &pbsubstreams.Module{Name: indexModName, Kind: &pbsubstreams.Module_KindBlockIndex_{KindBlockIndex: &pbsubstreams.Module_KindBlockIndex{OutputType: "proto:sf.substreams.index.v1.Keys"}}}
	hashes := manifest.NewModuleHashes()
	manifest.TestUseSimpleHash = true
	if _, err := hashes.HashModule(nil, mod, nil); err != nil {
		panic(err)
	}
	const interval = 1000
	execCfgs, err := execout.NewConfigs(base, []*pbsubstreams.Module{mod}, hashes, interval, 0, logger)
	if err != nil {
		panic(err)
	}
	idxCfgs, err := index.NewConfigs(base, []*pbsubstreams.Module{mod}, hashes, 0, logger)
	if err != nil {
		panic(err)
	}
	rng := &block.Range{StartBlock: lo, ExclusiveEndBlock: hi}
	wfile := idxCfgs.ConfigMap[indexModName].NewFile(rng)
	writers := map[string]*execout.Writer{indexModName: execout.NewWriter(lo, hi, indexModName, execCfgs, true)}
	idxWriters := map[string]*index.Writer{indexModName: index.NewWriter(wfile)}
	// a second block-index module built by the same job (same key names, on other blocks): each module's index file
	// must hold that module's keys only
	mod2 := &pbsubstreams.Module{Name: indexMod2Name, Kind: mod.Kind}
	if _, err := hashes.HashModule(nil, mod2, nil); err != nil {
		panic(err)
	}
	execCfgs2, err := execout.NewConfigs(base, []*pbsubstreams.Module{mod2}, hashes, interval, 0, logger)
	if err != nil {
		panic(err)
	}
	idxCfgs2, err := index.NewConfigs(base, []*pbsubstreams.Module{mod2}, hashes, 0, logger)
	if err != nil {
		panic(err)
	}
	writers[indexMod2Name] = execout.NewWriter(lo, hi, indexMod2Name, execCfgs2, true)
	idxWriters[indexMod2Name] = index.NewWriter(idxCfgs2.ConfigMap[indexMod2Name].NewFile(rng))
	want2 := map[string][]uint64{}
	eng, err := cache.NewEngine(ctx, writers, "sf.test.Block", map[string]*execout.File{}, idxWriters)
	if err != nil {
		panic(err)
	}
	res := &builtIndex{buffers: map[uint64]execout.ExecutionOutput{}}
	var last *pbsubstreams.Clock
	seen := map[uint64]int{}
	for _, it := range its {
		seen[it.blk]++
		clock := &pbsubstreams.Clock{Number: it.blk, Id: fmt.Sprintf("%d.%d", it.blk, seen[it.blk])}
		buf, err := eng.NewBuffer(nil, clock, nil)
		if err != nil {
			panic(err)
		}
		payload := marshalKeys(it.keys)
		if err := buf.Set(indexModName, payload); err != nil {
			panic(err)
		}
		if err := buf.SetFileOutput(indexModName, payload); err != nil {
			panic(err)
		}
		// the second module says of block b what the first says of the NEXT item (same key names, other blocks)
		keys2 := its[(seen[it.blk]+int(it.blk))%len(its)].keys
		if seen[it.blk] == 1 {
			for _, k := range keys2 {
				want2[k] = append(want2[k], it.blk)
			}
			p2 := marshalKeys(keys2)
			if err := buf.Set(indexMod2Name, p2); err != nil {
				panic(err)
			}
			if err := buf.SetFileOutput(indexMod2Name, p2); err != nil {
				panic(err)
			}
		}
		if err := eng.HandleFinal(clock); err != nil {
			panic(err)
		}
		res.buffers[it.blk] = buf
		last = clock
	}
	if err := eng.EndOfStream(last); err != nil {
		panic(err)
	}
	rfile := idxCfgs.ConfigMap[indexModName].NewFile(rng)
	if err := rfile.Load(ctx); err != nil {
		panic(fmt.Errorf("loading the index file just written: %w", err))
	}
	res.indices = rfile.Indices
	// the second module's file: its own keys, nothing of the first module's
	rfile2 := idxCfgs2.ConfigMap[indexMod2Name].NewFile(rng)
	if err := rfile2.Load(ctx); err != nil {
		panic(fmt.Errorf("loading the second index file just written: %w", err))
	}
	for k := range want2 {
		sort.Slice(want2[k], func(i, j int) bool { return want2[k][i] < want2[k][j] })
		want2[k] = dedupU64(want2[k])
	}
	if len(want2) > 0 && !sameSnapshot(rfile2.Indices, want2) {
		res.polluted = fmt.Sprintf("second index module: file holds %v, its own outputs were %v", snapshot(rfile2.Indices), want2)
	}
	return res
}

func dedupU64(l []uint64) []uint64 {
	var out []uint64
	for i, v := range l {
		if i == 0 || v != l[i-1] {
			out = append(out, v)
		}
	}
	return out
}

func snapshot(m map[string]*roaring64.Bitmap) map[string][]uint64 {
	s := make(map[string][]uint64, len(m))
	for k, v := range m {
		s[k] = v.ToArray()
	}
	return s
}

func sameSnapshot(m map[string]*roaring64.Bitmap, s map[string][]uint64) bool {
	if len(m) != len(s) {
		return false
	}
	for k, v := range m {
		w, ok := s[k]
		if !ok {
			return false
		}
		a := v.ToArray()
		if len(a) != len(w) {
			return false
		}
		for i := range a {
			if a[i] != w[i] {
				return false
			}
		}
	}
	return true
}

// applyBitmaps evaluates expr three times over the SAME shared bitmaps.  Returns the first answer and
// whether the later answers and the shared bitmaps stayed the same.
func applyBitmaps(expr sqe.Expression, indices map[string]*roaring64.Bitmap) (first string, stable bool) {
	before := snapshot(indices)
	stable = true
	for i := 0; i < 3; i++ {
		r, _ := common.Recover(func() string { return showSet(sqe.RoaringBitmapsApply(expr, indices).ToArray()) })
		if i == 0 {
			first = r
		} else if r != first {
			stable = false
		}
	}
	if !sameSnapshot(indices, before) {
		stable = false
	}
	return
}

func keysTrue(expr sqe.Expression, keys []string) (res bool, panicked bool) {
	r, p := common.Recover(func() string {
		bi := index.NewBlockIndex(expr, indexModName, nil)
		return fmt.Sprint(!bi.SkipFromKeys(marshalKeys(keys)))
	})
	return r == "true", p
}

// ---------------------------------------------------------------- predicates on expressions

// accepted: what the property quantifies over — no NOT, every AND/OR has at least one child.
func accepted(e sqe.Expression) bool {
	switch v := e.(type) {
	case *sqe.KeyTerm:
		return true
	case *sqe.AndExpression:
		if len(v.Children) == 0 {
			return false
		}
		for _, c := range v.Children {
			if !accepted(c) {
				return false
			}
		}
		return true
	case *sqe.OrExpression:
		if len(v.Children) == 0 {
			return false
		}
		for _, c := range v.Children {
			if !accepted(c) {
				return false
			}
		}
		return true
	case *sqe.ParenthesisExpression:
		return accepted(v.Child)
	}
	return false
}

// parserShape: what Parse is proved to return — no NOT, AND/OR have >= 2 children, no OR directly under an OR.
func parserShape(e sqe.Expression, underOr bool) bool {
	switch v := e.(type) {
	case *sqe.KeyTerm:
		return v.Value.Value != ""
	case *sqe.AndExpression:
		if len(v.Children) < 2 {
			return false
		}
		for _, c := range v.Children {
			if !parserShape(c, false) {
				return false
			}
		}
		return true
	case *sqe.OrExpression:
		if len(v.Children) < 2 || underOr {
			return false
		}
		for _, c := range v.Children {
			if !parserShape(c, true) {
				return false
			}
		}
		return true
	case *sqe.ParenthesisExpression:
		return parserShape(v.Child, false)
	}
	return false
}

func countOps(e sqe.Expression) (n int) {
	switch v := e.(type) {
	case *sqe.AndExpression:
		n = 1
		for _, c := range v.Children {
			n += countOps(c)
		}
	case *sqe.OrExpression:
		n = 1
		for _, c := range v.Children {
			n += countOps(c)
		}
	case *sqe.ParenthesisExpression:
		n = countOps(v.Child)
	case *sqe.NotExpression:
		n = 1 + countOps(v.Child)
	}
	return
}

func distinctBlocks(its []item) bool {
	seen := map[uint64]bool{}
	for _, it := range its {
		if seen[it.blk] {
			return false
		}
		seen[it.blk] = true
	}
	return true
}

// ---------------------------------------------------------------- running one case line

func runParse(line string, w []string) {
	input := string(common.Unhex(w[2]))
	var expr sqe.Expression
	ans, panicked := common.Recover(func() string {
		toks, lerr := sqe.VerifLex(input)
		ts := showToks(toks)
		if lerr != nil {
			ts += "!lex-error"
		}
		e, err := sqe.Parse(ctx, input)
		if err != nil {
			chain := strings.Split(strings.TrimPrefix(showErr(err), "err:"), ">")
			out.Count("parse:err:" + chain[len(chain)-1])
			if len(chain) > 1 {
				out.Count("parse:wrap:" + chain[0])
			}
			out.Count(fmt.Sprintf("parse:err-chain-length=%d", min(len(chain), 8)))
			return "toks=" + ts + " res=" + showErr(err)
		}
		expr = e
		return "toks=" + ts + " res=" + showExpr(e)
	})
	if strconv.Itoa(sqe.MaxRecursionDeepness) != w[1] {
		ans += " !MaxRecursionDeepness=" + strconv.Itoa(sqe.MaxRecursionDeepness)
	}
	out.Case(line, ans, expr != nil && countOps(expr) > 0 || expr == nil && len(input) > 0)
	if panicked {
		out.Fail("C15/parse-panics", "sqe.Parse panicked (it must turn every failure into an error)", line)
		return
	}
	if expr != nil {
		out.Count("parse:accepted")
		if !parserShape(expr, false) {
			out.Fail("C15/parser-output-shape", "Parse returned an expression with a NOT, an AND/OR with fewer than two children, an empty key or an unflattened OR: "+firstN(showExpr(expr), 200), line)
		}
	}
}

func firstN(s string, n int) string {
	if len(s) > n {
		return s[:n] + "…"
	}
	return s
}

func runOpt(line string, w []string) {
	e := readExpr(w[1])
	ans, _ := common.Recover(func() string { return showExpr(sqe.VerifOptimize(e)) })
	out.Case(line, ans, ans != w[1])
	out.Count("opt")
}

func segmentOf(its []item) (lo, hi uint64) {
	if len(its) == 0 {
		return 0, 1000
	}
	lo = its[0].blk - its[0].blk%1000
	return lo, lo + 1000
}

func runEval(line string, w []string) {
	expr := readExpr(w[1])
	its := readItems(w[2])
	lo, hi := segmentOf(its)
	faults := ""
	if len(w) > 3 { // f:<pattern>: transient write failures while the index is saved
		faults = strings.TrimPrefix(w[3], "f:")
		out.Count("eval:write-faults:" + faults)
	}
	var bi *builtIndex
	ans, _ := common.Recover(func() string {
		bi = buildRealIndex(its, lo, hi, faults)
		return ""
	})
	if bi == nil {
		out.Case(line, "index-build-failed "+ans, false)
		out.Fail("C15/index-build", "building, saving or loading the index failed", line)
		return
	}
	if bi.polluted != "" {
		out.Fail("C15/index-file-holds-another-modules-keys", bi.polluted, line)
	}
	bm, stable := applyBitmaps(expr, bi.indices)
	ksPanic := false
	var ks []uint64
	for _, it := range its {
		r, p := keysTrue(expr, it.keys)
		if p {
			ksPanic = true
		}
		if r {
			ks = append(ks, it.blk)
		}
	}
	kss := showSet(ks)
	if ksPanic {
		kss = "panic"
	}
	out.Case(line, "bm="+bm+" ks="+kss, bm != "-" && bm != "panic" && len(strings.Split(bm, ",")) < len(its))
	out.Count(fmt.Sprintf("eval:ops=%d", min(countOps(expr), 6)))
	out.Count(fmt.Sprintf("eval:blocks=%d0s", len(its)/10))
	if !stable {
		out.Fail("C15/bitmap-mutated", "evaluating the expression again over the same shared index bitmaps gives another answer, or the shared bitmaps changed (a lost Clone)", line)
	}
	if accepted(expr) && distinctBlocks(its) {
		out.Count("eval:oracle")
		if bm != kss {
			out.Fail("C15/bitmap-vs-keys", fmt.Sprintf("blocks selected through the index bitmaps {%s} differ from the blocks whose own keys satisfy the expression {%s}", bm, kss), line)
		}
		// optimizer output equivalent (on a deep copy: the optimizer mutates)
		opt := sqe.VerifOptimize(readExpr(w[1]))
		bm2, _ := applyBitmaps(opt, bi.indices)
		if bm2 != bm {
			out.Fail("C15/optimizer-changes-result", fmt.Sprintf("the optimized expression selects {%s}, the original {%s}", bm2, bm), line)
		}
		for _, it := range its {
			a, _ := keysTrue(expr, it.keys)
			b, _ := keysTrue(opt, it.keys)
			if a != b {
				out.Fail("C15/optimizer-changes-result", fmt.Sprintf("KeysApply differs after optimization on block %d", it.blk), line)
				break
			}
		}
	}
}

func runEvalIdx(line string, w []string) {
	expr := readExpr(w[1])
	idx := readIndex(w[2])
	bm, stable := applyBitmaps(expr, idx)
	out.Case(line, "bm="+bm, bm != "-" && bm != "panic")
	out.Count("evalidx")
	if !stable {
		out.Fail("C15/bitmap-mutated", "evaluating the expression again over the same shared index bitmaps gives another answer, or the shared bitmaps changed (a lost Clone)", line)
	}
}

func runKnil(line string, w []string) {
	expr := readExpr(w[1])
	ans, _ := common.Recover(func() string { return fmt.Sprint(sqe.KeysApply(expr, sqe.KeysQuerier{})) })
	out.Case(line, ans, false)
	out.Count("knil")
}

// skipDecision runs the real RunModule (first step: skipFromIndex) for a filtered mapper whose own output
// is already in the buffer, so that a non-skipped run returns the cached output without any WASM call.
func skipDecision(bi *index.BlockIndex, buf execout.ExecutionOutput) string {
	r, _ := common.Recover(func() string {
		base := exec.NewBaseExecutor(ctx, filteredModName, 0, nil, false, nil, bi, "", nil)
		ex := exec.NewMapperModuleExecutor(base, "sf.test.Out")
		_, _, _, skipped, err := exec.RunModule(ctx, ex, buf)
		if err != nil {
			return "e"
		}
		if skipped {
			return "1"
		}
		return "0"
	})
	if r == "panic" {
		return "p"
	}
	return r
}

// indexModuleOnSkippedInput runs the REAL index-module executor on a block where its only input (the output
// of an upstream mapper) was skipped: RunModule answers "skipped" (ErrNoInput) before any WASM call, and
// Pipeline.applyExecutionResult then stores nothing for the index module in the block's buffer.  Returns
// whether that is what happened (the buffer is left without an index-module output).
func indexModuleOnSkippedInput(buf execout.ExecutionOutput) bool {
	r, _ := common.Recover(func() string {
		base := exec.NewBaseExecutor(ctx, indexModName, 0, nil, false, []wasm.Argument{wasm.NewMapInput("upstream_map", 0)}, nil, "", nil)
		ex := exec.NewIndexModuleExecutor(base)
		_, _, _, skipped, err := exec.RunModule(ctx, ex, buf)
		if err != nil {
			return "e"
		}
		return fmt.Sprint(skipped)
	})
	return r == "true"
}

func runSkip(line string, w []string) {
	expr := readExpr(w[1])
	lo, hi := common.Atou(w[2]), common.Atou(w[3])
	its := readItems(w[4])
	slo := lo - lo%1000
	var built *builtIndex
	common.Recover(func() string { built = buildRealIndex(its, slo, slo+1000, ""); return "" })
	if built == nil {
		out.Case(line, "index-build-failed", false)
		out.Fail("C15/index-build", "building, saving or loading the index failed", line)
		return
	}
	// as pipeline.BuildModuleExecutors does
	var pre, fly *index.BlockIndex
	preOK, _ := common.Recover(func() string {
		pre = index.NewBlockIndex(expr, indexModName, sqe.RoaringBitmapsApply(expr, built.indices))
		return "ok"
	})
	fly = index.NewBlockIndex(expr, indexModName, nil)
	var sp, sf strings.Builder
	mismatch, flyPanicNoOutput := uint64(0), uint64(0)
	anyMismatch, anyFlyPanic := false, false
	for b := lo; b < hi; b++ {
		buf, has := built.buffers[b]
		if !has {
			clock := &pbsubstreams.Clock{Number: b, Id: fmt.Sprintf("%d.0", b)}
			nb, err := execout.NewBuffer("sf.test.Block", nil, clock)
			if err != nil {
				panic(err)
			}
			buf = nb
			if !indexModuleOnSkippedInput(buf) {
				out.Fail("C15/harness-premise", "the real index module executor did not answer 'skipped' on a block whose input was skipped", line)
			}
		}
		if err := buf.Set(filteredModName, []byte("cached")); err != nil {
			panic(err)
		}
		var p string
		if preOK == "ok" {
			p = skipDecision(pre, buf)
			sp.WriteString(p)
		}
		f := skipDecision(fly, buf)
		sf.WriteString(f)
		if preOK == "ok" && p != f && !(f == "p" && !has) && !anyMismatch { // every block, with or without an index output
			anyMismatch, mismatch = true, b
		}
		if !has && f == "p" && !anyFlyPanic {
			anyFlyPanic, flyPanicNoOutput = true, b
		}
	}
	pres := sp.String()
	excl := "panic"
	if preOK == "ok" {
		excl = fmt.Sprint(pre.ExcludesAllBlocks())
	} else {
		pres = "panic"
	}
	out.Case(line, "pre="+pres+" fly="+sf.String()+" excl="+excl, strings.Contains(pres, "0") && strings.Contains(pres, "1"))
	out.Count("skip")
	if accepted(expr) && distinctBlocks(its) {
		if anyMismatch {
			out.Fail("C15/skip-precomputed-vs-onthefly", fmt.Sprintf("block %d: the skip decision from the precomputed index bitmap differs from the decision taken on the block's own keys (pre=%s fly=%s)", mismatch, pres, sf.String()), line)
		}
		if excl == "true" && strings.Contains(sf.String(), "0") {
			out.Fail("C15/excludes-all-but-matches", "ExcludesAllBlocks() is true although a block's own keys satisfy the filter", line)
		}
		if anyFlyPanic {
			out.Count("skip:onthefly-panic-without-index-output")
			p := "1"
			if preOK == "ok" {
				p = string(pres[flyPanicNoOutput-lo])
			}
			out.Fail("C15/onthefly-panic-without-index-output", fmt.Sprintf("block %d: the index module produced no output (its input was skipped: RunModule -> ErrNoInput, nothing stored); with the index file present the filtered module is skipped (pre=%s), without it skipFromIndex panics \"getting index module output for keys: inputs module value not found\"", flyPanicNoOutput, p), line)
		}
	}
}

func runLine(line string) {
	w := strings.Fields(line)
	switch w[0] {
	case "PARSE":
		runParse(line, w)
	case "OPT":
		runOpt(line, w)
	case "EVAL":
		runEval(line, w)
	case "EVALIDX":
		runEvalIdx(line, w)
	case "KNIL":
		runKnil(line, w)
	case "SKIP":
		runSkip(line, w)
	case "SYS":
		runSys(line, w)
	default:
		out.Case(line, "bad-op", false)
	}
}

// ---------------------------------------------------------------- generators

// keys the assignments use (valid UTF-8: pbindex.Keys.keys is a proto3 string field)
var keyPool = []string{"a", "b", "c", "d", "k1", "x:y", "a-b", "a||b", "é", "evt:Transfer", "a b", "(p)", "-neg", "&&", "it's", "日本"}

func bareSafe(k string) bool {
	if k == "" || k[0] == '-' || k == "&&" || k == "||" || strings.HasPrefix(k, "&&") || strings.HasPrefix(k, "||") {
		return false
	}
	return !strings.ContainsAny(k, " \t\n\f\r'\"()")
}

type gen struct{ r *common.Rng }

func (g *gen) key() string {
	// skewed to the first few keys so that assignments and queries overlap
	if g.r.Chance(3, 4) {
		return keyPool[g.r.Intn(5)]
	}
	return keyPool[g.r.Intn(len(keyPool))]
}

// randAST: a random accepted-shape AST (as text-independent tree) rendered later into a query string
type node struct {
	kind string // K A O P
	key  string
	cs   []*node
}

func (g *gen) tree(depth int) *node {
	if depth <= 0 || g.r.Chance(1, 3) {
		return &node{kind: "K", key: g.key()}
	}
	switch g.r.Intn(5) {
	case 0, 1:
		n := &node{kind: "A"}
		for i, k := 0, g.r.Range(2, 4); i < k; i++ {
			n.cs = append(n.cs, g.tree(depth-1))
		}
		return n
	case 2, 3:
		n := &node{kind: "O"}
		for i, k := 0, g.r.Range(2, 4); i < k; i++ {
			n.cs = append(n.cs, g.tree(depth-1))
		}
		return n
	}
	return &node{kind: "P", cs: []*node{g.tree(depth - 1)}}
}

func (g *gen) ws(min int) string {
	n := min
	if g.r.Chance(1, 5) {
		n += g.r.Intn(3)
	}
	var sb strings.Builder
	for i := 0; i < n; i++ {
		if g.r.Chance(1, 8) {
			sb.WriteByte("\t\n\r\f"[g.r.Intn(4)])
		} else {
			sb.WriteByte(' ')
		}
	}
	return sb.String()
}

func (g *gen) render(n *node, parent string) string {
	switch n.kind {
	case "K":
		if bareSafe(n.key) && g.r.Chance(3, 4) {
			return n.key
		}
		q := "\""
		if strings.Contains(n.key, "\"") || g.r.Chance(1, 3) && !strings.Contains(n.key, "'") {
			q = "'"
		}
		return q + n.key + q
	case "P":
		return "(" + g.ws(0) + g.render(n.cs[0], "P") + g.ws(0) + ")"
	case "A":
		var sb strings.Builder
		for i, c := range n.cs {
			if i > 0 {
				if g.r.Bool() {
					sb.WriteString(g.ws(1) + "&&" + g.ws(1))
				} else {
					sb.WriteString(g.ws(1))
				}
			}
			s := g.render(c, "A")
			if c.kind == "O" && g.r.Chance(4, 5) {
				s = "(" + s + ")"
			}
			sb.WriteString(s)
		}
		return sb.String()
	case "O":
		var sb strings.Builder
		for i, c := range n.cs {
			if i > 0 {
				sb.WriteString(g.ws(1) + "||" + g.ws(1))
			}
			sb.WriteString(g.render(c, "O"))
		}
		return sb.String()
	}
	return ""
}

var mutInserts = []string{"-", ")", "(", "\"", "'", "&&", "||", " ", "\xff", "\x0b", " ", "|", "&", " -", "and", "or", "AND", "OR", "NOT "}

func (g *gen) mutate(s string) string {
	for k := g.r.Range(1, 2); k > 0; k-- {
		pos := g.r.Intn(len(s) + 1)
		switch g.r.Intn(3) {
		case 0, 1:
			s = s[:pos] + mutInserts[g.r.Intn(len(mutInserts))] + s[pos:]
		default:
			if pos < len(s) {
				s = s[:pos] + s[pos+1:]
			}
		}
	}
	return s
}

func (g *gen) garbage() string {
	const alpha = "ab ()|&-\"'\t"
	n := g.r.Intn(13)
	b := make([]byte, n)
	for i := range b {
		if g.r.Chance(1, 20) {
			b[i] = byte(g.r.Intn(256))
		} else {
			b[i] = alpha[g.r.Intn(len(alpha))]
		}
	}
	return string(b)
}

func (g *gen) items(maxBlocks int) []item {
	base := uint64(g.r.Intn(4)) * 1000
	if g.r.Chance(1, 10) {
		base = uint64(g.r.Intn(1<<20)) * 1000
	}
	n := g.r.Range(0, maxBlocks)
	off := uint64(g.r.Intn(20))
	var its []item
	for i := 0; i < n; i++ {
		if g.r.Chance(1, 6) { // the index module had no output on this block
			continue
		}
		it := item{blk: base + off + uint64(i)}
		for k := g.r.Intn(5); k > 0; k-- {
			it.keys = append(it.keys, g.key())
		}
		if g.r.Chance(1, 40) {
			it.keys = append(it.keys, "")
		}
		its = append(its, it)
	}
	if len(its) > 1 && g.r.Chance(1, 3) { // Kv is a map: any order
		i, j := g.r.Intn(len(its)), g.r.Intn(len(its))
		its[i], its[j] = its[j], its[i]
	}
	if len(its) > 0 && g.r.Chance(1, 50) { // a second entry for the same block number (outside the property's domain)
		its = append(its, item{blk: its[0].blk, keys: []string{g.key()}})
	}
	return its
}

// a hand-built expression text, possibly outside what the parser produces (NOT, empty / single child lists)
func (g *gen) rawExpr(depth int, wild bool) string {
	hk := func(k string) string { return "K(" + common.Hex([]byte(k)) + ",-)" }
	if depth <= 0 || g.r.Chance(1, 3) {
		if wild && g.r.Chance(1, 30) {
			return hk("\xffz")
		}
		return hk(g.key())
	}
	list := func(tag string) string {
		lo := 2
		if wild && g.r.Chance(1, 5) {
			lo = 0
		} else if g.r.Chance(1, 6) {
			lo = 1
		}
		n := g.r.Range(lo, lo+2)
		p := make([]string, n)
		for i := range p {
			p[i] = g.rawExpr(depth-1, wild)
		}
		return tag + "(" + strings.Join(p, ",") + ")"
	}
	switch g.r.Intn(7) {
	case 0, 1:
		return list("A")
	case 2, 3, 4:
		return list("O")
	case 5:
		return "P(" + g.rawExpr(depth-1, wild) + ")"
	}
	if wild {
		return "N(" + g.rawExpr(depth-1, wild) + ")"
	}
	return "P(" + g.rawExpr(depth-1, wild) + ")"
}

func (g *gen) rawIndex() []idxEntry {
	var ix []idxEntry
	used := map[string]bool{}
	base := uint64(g.r.Intn(3)) * 1000
	for k := g.r.Intn(6); k > 0; k-- {
		key := g.key()
		if g.r.Chance(1, 20) {
			key = "\xffz"
		}
		if used[key] {
			continue
		}
		used[key] = true
		e := idxEntry{key: key}
		for b := g.r.Intn(6); b > 0; b-- {
			e.blocks = append(e.blocks, base+uint64(g.r.Intn(30)))
		}
		ix = append(ix, e)
	}
	return ix
}

func parseLine(s string) string {
	return fmt.Sprintf("PARSE %d %s", sqe.MaxRecursionDeepness, common.Hex([]byte(s)))
}

// after a PARSE case: if the real parser accepts, evaluate the parsed expression on random assignments
func (g *gen) followUps(input string, nEval, nSkip int) {
	e, err := sqe.Parse(ctx, input)
	if err != nil {
		return
	}
	txt := showExpr(e)
	if len(txt) > 20000 {
		return
	}
	for i := 0; i < nEval; i++ {
		runLine("EVAL " + txt + " " + showItems(g.items(24)))
	}
	for i := 0; i < nSkip; i++ {
		its := g.items(16)
		lo, _ := segmentOf(its)
		first, last := lo+5, lo+12
		for _, it := range its {
			if it.blk < first {
				first = it.blk
			}
			if it.blk >= last {
				last = it.blk + 1
			}
		}
		if first > lo && g.r.Bool() {
			first--
		}
		runLine(fmt.Sprintf("SKIP %s %d %d %s", txt, first, last+uint64(g.r.Intn(2)), showItems(its)))
	}
}

func deepInputs() []string {
	var res []string
	d := sqe.MaxRecursionDeepness
	rep := func(s string, n int) string { return strings.Repeat(s, n) }
	for _, n := range []int{d - 2, d - 1, d, d + 1} {
		res = append(res, rep("a || ", n)+"a")                  // n ORs: depth n
		res = append(res, rep("(", n)+"a"+rep(")", n))          // n parentheses
		res = append(res, rep("(", n)+"a"+rep(")", n-1))        // unbalanced near the limit
		res = append(res, rep("(a || ", n/2)+"b"+rep(")", n/2)) // two levels per step
		res = append(res, rep("a b && ", n)+"c")                // ANDs do not deepen
		res = append(res, rep("(", n/2)+rep("a || ", n-n/2)+"a"+rep(")", n/2))
	}
	res = append(res, rep("a ", 3*d)+"|| b", rep("(a) ", 2*d))
	return res
}

// every string over a small alphabet of lexemes, up to maxLen lexemes: hits every parser branch
func exhaustive(maxLen int, f func(string)) {
	syms := []string{"a", "b", " ", "(", ")", "||", "&&", "-", "\""}
	var rec func(prefix string, n int)
	rec = func(prefix string, n int) {
		f(prefix)
		if n == 0 {
			return
		}
		for _, s := range syms {
			rec(prefix+s, n-1)
		}
	}
	rec("", maxLen)
}

var fixedInputs = []string{
	"a", "a b", "a && b", "a || b", "a || b || c", "a||b", "a || b c || d", "a && b || c && d", "(a || b) || c", "a || (b || c)",
	"a -b", "-a", "a-b", "\"a'", "\"it's\"", "'a  (b) -c'", "''", "\"\"", "a &&", "a ||", "a )", "( a", "()", "a && && b", "a\xffb \xff",
	"|x", "&&&", "a |||| b", "a\x0bb", "a b", "", "  ", "a ||| b", "(a b) c", "a (b c)", "(a) (b)", "a && (b) c", "\"", "a\tb\nc",
	"a and b", "a or b", "a AND b OR c", "NOT a", "!a", "a,b", "a:b || c:d", "((a))", "(a || b) (c || d)", "a || b) c", "a (", "\"a b\" || 'c d'",
	"\"a\"b", "a\"b\"", "a'b", "(a)b", "a(b)", "a\n||\nb", "a ||", "|| a", "&& a", "a && || b", "( || a)", "(a ||)", "\"a", "'a\"", "\"-\"", "a - b", "a -", "- -a",
}

func generate(o *common.Opts) {
	g := &gen{r: common.NewRng(o.Seed)}
	nRandom, nGarbage, nRaw, exLen, nSys := 12000, 6000, 8000, 5, 400
	if o.Thorough() {
		nRandom, nGarbage, nRaw, exLen, nSys = 100000, 50000, 60000, 6, 4000
	}
	// regression witnesses of the fixed defect F19 first (block 5: the index module has no output; block 6: key a):
	// before the fix skipFromIndex panicked on block 5 when no index file existed
	runLine("SKIP K(61,-) 5 7 6:61")
	runLine(fmt.Sprintf("SYS %d 61 5 7 6:61", sqe.MaxRecursionDeepness))
	for _, s := range fixedInputs {
		runLine(parseLine(s))
		g.followUps(s, 2, 1)
	}
	for _, s := range deepInputs() {
		runLine(parseLine(s))
		out.Count("gen:deep")
	}
	exhaustive(exLen, func(s string) {
		runLine(parseLine(s))
		out.Count("gen:exhaustive")
	})
	for i := 0; i < nRandom; i++ {
		s := g.render(g.tree(g.r.Range(1, 5)), "")
		kind := "gen:structured"
		if g.r.Chance(1, 5) {
			s = g.mutate(s)
			kind = "gen:mutated"
		}
		out.Count(kind)
		runLine(parseLine(s))
		g.followUps(s, 2, 1)
	}
	for i := 0; i < nGarbage; i++ {
		s := g.garbage()
		out.Count("gen:garbage")
		runLine(parseLine(s))
		g.followUps(s, 1, 0)
	}
	// the real Tier1 service on a filtered module, no index file (every decision on the fly)
	sysQueries := []string{"a", "a || b", "a b", "(a || b) c", "a && (b || \"x:y\")", "k1 || 'a b'", "a -b", "a ||", "d"}
	for i := 0; i < nSys; i++ {
		q := sysQueries[g.r.Intn(len(sysQueries))]
		if g.r.Chance(1, 3) {
			q = g.render(g.tree(g.r.Range(1, 3)), "")
		}
		its := g.items(12)
		if g.r.Chance(3, 4) { // every block of the range has an index output: the domain where the code works
			its = nil
		}
		lo, _ := segmentOf(its)
		lo += uint64(g.r.Range(1, 8))
		hi := lo + uint64(g.r.Range(3, 14))
		if len(its) == 0 {
			for b := lo; b < hi; b++ {
				it := item{blk: b}
				for k := g.r.Intn(4); k > 0; k-- {
					it.keys = append(it.keys, g.key())
				}
				its = append(its, it)
			}
		}
		runLine(fmt.Sprintf("SYS %d %s %d %d %s", sqe.MaxRecursionDeepness, common.Hex([]byte(q)), lo, hi, showItems(its)))
	}
	// the index saved through transient write failures (real retry loops, real back-off sleeps of 1 s, 2 s)
	for _, pat := range []string{"a", "h", "aa", "0a"} {
		e := g.rawExpr(g.r.Range(1, 3), false)
		runLine("EVAL " + e + " " + showItems(g.items(20)) + " f:" + pat)
	}
	// hand-built expressions: the optimizer and the evaluators outside the parser's image too
	for i := 0; i < nRaw; i++ {
		wild := g.r.Chance(1, 3)
		e := g.rawExpr(g.r.Range(1, 4), wild)
		runLine("OPT " + e)
		runLine("EVAL " + e + " " + showItems(g.items(20)))
		runLine("EVALIDX " + e + " " + showIndex(g.rawIndex()))
		if i%5 == 0 {
			runLine("KNIL " + e)
			its := g.items(10)
			lo, _ := segmentOf(its)
			runLine(fmt.Sprintf("SKIP %s %d %d %s", e, lo+uint64(g.r.Intn(5)), lo+uint64(g.r.Range(12, 34)), showItems(its)))
		}
	}
}

func main() {
	o := common.ParseFlags()
	out = common.NewOut(o.Out)
	defer out.Finish()
	out.Rule = "PARSE: accepted with at least one operator, or a non-empty rejected input; EVAL: the bitmap result is neither empty nor every block of the assignment; SKIP: some block skipped and some not; OPT: the optimizer changed the expression"
	out.Notes = append(out.Notes,
		"lexer: the model re-implements the regexp lexer; every PARSE case compares the model's token stream with the real lexer's (hook sqe.VerifLex) and the model's parse of it with the real sqe.Parse",
		"index: built by the real cache.Engine.EndOfStream through index.Writer/File.Save into a dstore memory store and read back with index.File.Load; every expression is evaluated three times over the same loaded bitmaps",
		"skip decisions: exec.RunModule (first step skipFromIndex) on a mapper whose output is already cached in the buffer; the two lines of pipeline.BuildModuleExecutors that precompute the bitmap are replicated in the harness",
	)
	sysInit()
	sysDir = o.Out
	if lines := o.ReplayLines(); lines != nil {
		for _, l := range lines {
			runLine(l)
		}
		return
	}
	generate(o)
}

package main

// System-level cases: the REAL Tier1 service (service.TestNewService(...).TestBlocks) runs, in development
// mode and in process, a three-module package
//
//	upstream_map (map, source block)  ->  idx (blockIndex, input: map upstream_map)  ->  filtered (map, blockFilter{idx, <query>})
//
// on the blocks [lo,hi) with a native scripted runtime registered as wasm runtime "verif":
// upstream_map emits the block's keys (or skips its output when the assignment has no entry for the block),
// idx forwards them, filtered emits a non-empty marker whenever it runs.  No index file exists, so every
// skip decision is taken on the fly (skipFromIndex -> SkipFromKeys).  Observed: per block, whether the
// response stream carries an output of `filtered`.
//
//	SYS <maxDepth> <hex query> <lo> <hi> <items>   ->  one char per block: 1 ran, 0 skipped, p = request failed with a panic at this block

import (
	"context"
	"errors"
	"fmt"
	"io"
	"os"
	"path/filepath"
	"strconv"
	"strings"
	"time"

	"github.com/streamingfast/bstream"
	pbbstream "github.com/streamingfast/bstream/pb/sf/bstream/v1"
	"github.com/streamingfast/bstream/stream"
	"github.com/streamingfast/dmetering"
	"github.com/streamingfast/dstore"
	"github.com/streamingfast/shutter"
	"go.uber.org/zap"
	"google.golang.org/protobuf/types/known/anypb"
	"google.golang.org/protobuf/types/known/timestamppb"

	"github.com/streamingfast/substreams"
	pbsubstreamsrpc "github.com/streamingfast/substreams/pb/sf/substreams/rpc/v2"
	pbsubstreams "github.com/streamingfast/substreams/pb/sf/substreams/v1"
	pbsubstreamstest "github.com/streamingfast/substreams/pb/sf/substreams/v1/test"
	"github.com/streamingfast/substreams/pipeline"
	"github.com/streamingfast/substreams/reqctx"
	"github.com/streamingfast/substreams/service"
	"github.com/streamingfast/substreams/service/config"
	"github.com/streamingfast/substreams/sqe"
	"github.com/streamingfast/substreams/wasm"

	"verifharness/common"
)

// ---- scripted runtime (module "code" = the entrypoint name)

var sysKeys map[uint64][]string // block -> keys; absent = upstream_map skips its output

type sysInst struct{}

func (sysInst) Cleanup(context.Context) error { return nil }
func (sysInst) Close(context.Context) error   { return nil }

type sysMod struct{}

func (sysMod) NewInstance(context.Context) (wasm.Instance, error) { return sysInst{}, nil }
func (sysMod) Close(context.Context) error                        { return nil }
func (sysMod) ExecuteNewCall(ctx context.Context, call *wasm.Call, cached wasm.Instance, args []wasm.Argument, argValues map[string][]byte) (wasm.Instance, error) {
	b := call.Clock.Number
	switch call.Entrypoint {
	case "upstream_map":
		if ks, ok := sysKeys[b]; ok {
			call.SetReturnValue(marshalKeys(ks))
		} else {
			call.SkipEmptyOutput() // empty return value + skip intrinsic: the output is skipped
		}
	case "idx":
		call.SetReturnValue(argValues["upstream_map"])
	case "filtered":
		call.SetReturnValue([]byte("ran@" + strconv.FormatUint(b, 10)))
	}
	return sysInst{}, nil
}

func sysInit() {
	os.Setenv("SUBSTREAMS_WASM_RUNTIME", "verif")
	wasm.RegisterModuleFactory("verif", wasm.ModuleFactoryFunc(func(ctx context.Context, code []byte, typ string, reg *wasm.Registry) (wasm.Module, error) {
		return sysMod{}, nil
	}))
	bstream.GetProtocolFirstStreamableBlock = 0
}

type sysObj struct{ cursor *bstream.Cursor }

func (o *sysObj) Cursor() *bstream.Cursor              { return o.cursor }
func (o *sysObj) Step() bstream.StepType               { return bstream.StepNewIrreversible }
func (o *sysObj) FinalBlockHeight() uint64             { return o.cursor.LIB.Num() }
func (o *sysObj) ReorgJunctionBlock() bstream.BlockRef { return nil }

type sysRunner struct {
	*shutter.Shutter
	pipe        *pipeline.Pipeline
	start, stop uint64
}

func (r *sysRunner) Run(context.Context) error {
	for i := r.start; i < r.stop; i++ {
		lib := i - 1
		if i == 0 {
			lib = 0
		}
		ref := bstream.NewBlockRef("block-"+strconv.FormatUint(i, 10), i)
		libRef := bstream.NewBlockRef("block-"+strconv.FormatUint(lib, 10), lib)
		pl, _ := anypb.New(&pbsubstreamstest.Block{Id: ref.ID(), Number: i})
		blk := &pbbstream.Block{Id: ref.ID(), Number: i, Timestamp: timestamppb.New(time.Unix(int64(i), 0)), LibNum: lib, Payload: pl}
		err := r.pipe.ProcessBlock(blk, &sysObj{cursor: &bstream.Cursor{Step: bstream.StepNewIrreversible, Block: ref, LIB: libRef, HeadBlock: ref}})
		if err != nil && !errors.Is(err, io.EOF) {
			return fmt.Errorf("process block %d: %w", i, err)
		}
		if errors.Is(err, io.EOF) {
			return err
		}
	}
	return io.EOF
}

type nopEmitter struct{}

func (nopEmitter) Emit(context.Context, dmetering.Event) {}
func (nopEmitter) Shutdown(error)                        {}

var sysDir string
var sysSeq int

func sysRun(query string, lo, hi uint64, its []item) string {
	sysKeys = map[uint64][]string{}
	for _, it := range its {
		if it.keys == nil {
			it.keys = []string{}
		}
		sysKeys[it.blk] = it.keys
	}
	src := func(t string) *pbsubstreams.Module_Input {
		return &pbsubstreams.Module_Input{Input: &pbsubstreams.Module_Input_Source_{Source: &pbsubstreams.Module_Input_Source{Type: t}}}
	}
	mapIn := func(n string) *pbsubstreams.Module_Input {
		return &pbsubstreams.Module_Input{Input: &pbsubstreams.Module_Input_Map_{Map: &pbsubstreams.Module_Input_Map{ModuleName: n}}}
	}
	const keysT = "proto:sf.substreams.index.v1.Keys"
	const blockT = "sf.substreams.v1.test.Block"
	mods := &pbsubstreams.Modules{
		Binaries: []*pbsubstreams.Binary{{Type: "wasm/rust-v1", Content: []byte("script")}},
		Modules: []*pbsubstreams.Module{
			{Name: "upstream_map", BinaryEntrypoint: "upstream_map", Kind: &pbsubstreams.Module_KindMap_{KindMap: &pbsubstreams.Module_KindMap{OutputType: keysT}}, Inputs: []*pbsubstreams.Module_Input{src(blockT)}, Output: &pbsubstreams.Module_Output{Type: keysT}},
			{Name: "idx", BinaryEntrypoint: "idx", Kind: &pbsubstreams.Module_KindBlockIndex_{KindBlockIndex: &pbsubstreams.Module_KindBlockIndex{OutputType: keysT}}, Inputs: []*pbsubstreams.Module_Input{mapIn("upstream_map")}, Output: &pbsubstreams.Module_Output{Type: keysT}},
			{Name: "filtered", BinaryEntrypoint: "filtered", Kind: &pbsubstreams.Module_KindMap_{KindMap: &pbsubstreams.Module_KindMap{OutputType: "proto:sf.test.Out"}}, Inputs: []*pbsubstreams.Module_Input{src(blockT)}, Output: &pbsubstreams.Module_Output{Type: "proto:sf.test.Out"},
				BlockFilter: &pbsubstreams.Module_BlockFilter{Module: "idx", Query: &pbsubstreams.Module_BlockFilter_QueryString{QueryString: query}}},
		},
	}
	req := &pbsubstreamsrpc.Request{StartBlockNum: int64(lo), StopBlockNum: hi, Modules: mods, OutputModule: "filtered", ProductionMode: false}
	sysSeq++
	dir := filepath.Join(sysDir, fmt.Sprintf("sys-%d", sysSeq))
	defer os.RemoveAll(dir)
	base, err := dstore.NewStore(filepath.Join(dir, "store"), "zst", "zstd", true)
	if err != nil {
		panic(err)
	}
	r := &sysRunner{}
	sf := func(ctx context.Context, h bstream.Handler, startBlockNum int64, stopBlockNum uint64, _ string, _ bool, _ bool, _ *zap.Logger, extraOpts ...stream.Option) (service.Streamable, error) {
		if p, ok := h.(*pipeline.Pipeline); ok {
			r.pipe = p
		} else if lb, ok := h.(*service.LiveBackFiller); ok {
			r.pipe = lb.NextHandler.(*pipeline.Pipeline)
		}
		r.Shutter = shutter.New()
		r.start, r.stop = uint64(startBlockNum), stopBlockNum
		return r, nil
	}
	rc := config.RuntimeConfig{SegmentSize: 1000, DefaultParallelSubrequests: 1, BaseObjectStore: base, DefaultCacheTag: "tag", MaxJobsAhead: 10}
	svc := service.TestNewService(rc, lo, sf)
	c := reqctx.WithLogger(context.Background(), zap.NewNop())
	c = dmetering.WithBytesMeter(c)
	c = reqctx.WithEmitter(c, nopEmitter{})
	ran := map[uint64]bool{}
	seen := map[uint64]bool{}
	err = svc.TestBlocks(c, false, req, func(rr substreams.ResponseFromAnyTier) error {
		if resp, ok := rr.(*pbsubstreamsrpc.Response); ok {
			if d := resp.GetBlockScopedData(); d != nil {
				seen[d.Clock.Number] = true
				ran[d.Clock.Number] = len(d.Output.GetMapOutput().GetValue()) > 0
			}
		}
		return nil
	})
	if err != nil && strings.Contains(err.Error(), "parse block filter") {
		return "parse-error"
	}
	var sb strings.Builder
	for b := lo; b < hi; b++ {
		switch {
		case !seen[b]:
			if err != nil && strings.Contains(err.Error(), fmt.Sprintf("panic at block %d:", b)) {
				sb.WriteByte('p')
			} else {
				sb.WriteByte('?')
			}
			b = hi
		case ran[b]:
			sb.WriteByte('1')
		default:
			sb.WriteByte('0')
		}
	}
	if err != nil && !strings.Contains(err.Error(), "panic at block") {
		sb.WriteString(" err=" + strings.ReplaceAll(firstN(err.Error(), 80), " ", "_"))
	}
	return sb.String()
}

func runSys(line string, w []string) {
	query := string(common.Unhex(w[2]))
	lo, hi := common.Atou(w[3]), common.Atou(w[4])
	its := readItems(w[5])
	ans, _ := common.Recover(func() string { return sysRun(query, lo, hi, its) })
	if strconv.Itoa(sqe.MaxRecursionDeepness) != w[1] {
		ans += " !MaxRecursionDeepness=" + strconv.Itoa(sqe.MaxRecursionDeepness)
	}
	out.Case(line, ans, strings.Contains(ans, "0") && strings.Contains(ans, "1"))
	out.Count("sys")
	if ans == "parse-error" {
		out.Count("sys:parse-error")
		return
	}
	// the property on the response stream: `filtered` runs on block b iff the filter holds on b's own keys
	// (what the index-present path computes, by skip_agree / skip_without_output: absent output = skipped)
	expr, err := sqe.Parse(ctx, query)
	if err != nil || !distinctBlocks(its) {
		return
	}
	keysOf := map[uint64][]string{}
	has := map[uint64]bool{}
	for _, it := range its {
		keysOf[it.blk], has[it.blk] = it.keys, true
	}
	for b := lo; b < hi; b++ {
		i := int(b - lo)
		if i >= len(ans) || ans[i] == ' ' {
			break
		}
		want := byte('0')
		if has[b] {
			if r, _ := keysTrue(expr, keysOf[b]); r {
				want = '1'
			}
		}
		if ans[i] == 'p' && !has[b] {
			out.Fail("C15/onthefly-panic-without-index-output", fmt.Sprintf("Tier1, development mode, no index file: the request fails with \"panic at block %d: getting index module output for keys: inputs module value not found\" because the index module's only input (a mapper) skipped its output on that block; with the index file present the block is just skipped", b), line)
			break
		}
		if ans[i] != want {
			out.Fail("C15/response-stream-vs-filter", fmt.Sprintf("block %d: the filtered module's output presence is %c, the filter on the block's own keys says %c", b, ans[i], want), line)
			break
		}
	}
}

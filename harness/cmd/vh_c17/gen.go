package main

import (
	"fmt"
	"strings"

	pbsubstreamsrpc "github.com/streamingfast/substreams/pb/sf/substreams/rpc/v2"

	"verifharness/common"
)

func skeletonSize(r *common.Rng) int {
	switch x := r.Intn(100); {
	case x < 10:
		return 1
	case x < 30:
		return r.Range(2, 3)
	case x < 75:
		return r.Range(4, 8)
	case x < 97:
		return r.Range(9, 12)
	default:
		return r.Range(13, 40)
	}
}

// chain builds n modules m0 <- m1 <- ... (each reads the previous one), kinds alternating as asked.
func chain(n int, cfg wCfg, withStores bool, fanIn int) *wCase {
	c := &wCase{cfg: cfg, cur: "-", bins: []wBin{{"wasm/rust-v1", 8}}, start: 5, stop: 500}
	for i := 0; i < n; i++ {
		m := wModule{name: fmt.Sprintf("m%d", i), kind: 'm'}
		if withStores && i%2 == 1 && i != n-1 {
			m.kind = 's'
		}
		if i == 0 {
			m.inputs = []wInput{{k: 'r', s: blockT}}
		}
		for k := 1; k <= fanIn && i-k >= 0; k++ {
			p := c.mods[i-k]
			if p.kind == 's' {
				m.inputs = append(m.inputs, wInput{k: 't', s: p.name, mode: 1})
			} else {
				m.inputs = append(m.inputs, wInput{k: 'm', s: p.name})
			}
		}
		c.mods = append(c.mods, m)
	}
	c.out = c.mods[n-1].name
	return c
}

func generate(o *common.Opts) {
	rng := common.NewRng(o.Seed)
	scale := 1
	if o.Thorough() {
		scale = 10
	}

	// 0. corpus: minimal witnesses of the defects found by this check (so that a replay file holds the
	// minimal case) and of the three defects fixed before it (F10-F12), plus the 17e1a4e4 regression
	for _, l := range corpus {
		if strings.HasPrefix(l, "T2 ") {
			runT2Line(l, []string{"corpus"})
		} else {
			runLine(l, []string{"corpus"})
		}
	}

	// 1. well-formed requests
	for n := 0; n < 5000*scale; n++ {
		cfg := genCfg(rng)
		c := genValid(rng, skeletonSize(rng), cfg)
		emit(c, nil, "valid-skeleton")
		if rng.Chance(1, 3) {
			emitT2(rng, c, "valid-skeleton")
		}
	}

	// 2. one to three seeded mutations of a well-formed request
	for n := 0; n < 45000*scale; n++ {
		cfg := genCfg(rng)
		c := genValid(rng, skeletonSize(rng), cfg)
		k := 1
		if rng.Chance(1, 4) {
			k = rng.Range(2, 3)
		}
		var tags []string
		for len(tags) < k {
			m := mutations[rng.Intn(len(mutations))]
			if len(c.mods) == 0 && m.name != "modules-absent" {
				break
			}
			if m.f(rng, c) {
				tags = append(tags, m.name)
			} else if rng.Chance(1, 3) {
				break
			}
		}
		if len(tags) == 0 {
			tags = []string{"valid-skeleton"}
		}
		emit(c, nil, tags...)
		if rng.Chance(1, 6) {
			emitT2(rng, c, "mutated")
		}
	}

	// 2b. every mutation alone on a fixed number of skeletons (so that each class is hit in every run)
	for _, m := range mutations {
		for n := 0; n < 60*scale; n++ {
			c := genValid(rng, rng.Range(3, 9), genCfg(rng))
			if m.f(rng, c) {
				emit(c, nil, "single:"+m.name)
			}
		}
	}

	// 3. Go-only shapes pushed through the encoder
	for _, pm := range pbMutations {
		for n := 0; n < 150*scale; n++ {
			c := genValid(rng, rng.Range(2, 8), genCfg(rng))
			pm := pm
			applied := false
			emit(c, func(req *pbsubstreamsrpc.Request) { applied = pm.f(rng, req) }, pm.name)
			_ = applied
		}
	}

	// 4. exhaustive: all requests with two modules a, b over a small alphabet
	kinds := []byte{'-', 'm', 's', 'i'}
	inputsOf := func(other string) [][]wInput {
		return [][]wInput{nil, {{k: 'r', s: blockT}}, {{k: 'm', s: other}}, {{k: 't', s: other, mode: 1}}, {{k: 'n'}}, {{k: 'p', s: other}},
			{{k: 'r', s: blockT}, {k: 'm', s: other}}, {{k: 'r', s: blockT}, {k: 't', s: other, mode: 2}}}
	}
	filtersA := []*wFilter{nil, {"b", 's'}, {"a", 's'}}
	filtersB := []*wFilter{nil, {"a", 's'}}
	cnt := 0
	for _, ka := range kinds {
		for _, kb := range kinds {
			for _, ia := range inputsOf("b") {
				for _, ib := range inputsOf("a") {
					for _, fa := range filtersA {
						for _, fb := range filtersB {
							for _, outm := range []string{"a", "b"} {
								cnt++
								c := &wCase{cfg: wCfg{bt: blockT, fs: 0, seg: 10, fin: u64p(100), head: u64p(200), rc: "n"}, out: outm,
									start: 5, stop: 50, prod: cnt%2 == 0, cur: "-", bins: []wBin{{"wasm/rust-v1", 4}},
									mods: []wModule{{name: "a", kind: ka, inputs: ia, filter: fa}, {name: "b", kind: kb, inputs: ib, filter: fb, init: uint64(cnt % 3)}}}
								emit(c, nil, "exhaustive-2-modules")
								if cnt%5 == 0 {
									emitT2(rng, c, "exhaustive-2-modules")
								}
							}
						}
					}
				}
			}
		}
	}

	// 5. sizes around the limits: 100 / 101 modules, deep chains, wide fan-in, 30 / 31 inputs
	big := wCfg{bt: blockT, fs: 0, seg: 100, fin: u64p(1000), head: u64p(1200), rc: "n"}
	for rep := 0; rep < scale; rep++ {
		for _, n := range []int{99, 100, 101, 105} {
			emit(chain(n, big, false, 1), nil, fmt.Sprintf("chain-%d-maps", n))
			emit(chain(n, big, true, 1), nil, fmt.Sprintf("chain-%d-maps-and-stores", n))
		}
		emit(chain(100, big, true, 30), nil, "100-modules-30-inputs-each")
		emit(chain(100, big, false, 31), nil, "100-modules-31-inputs-each")
		emit(chain(60, big, true, 12), nil, "60-modules-12-inputs-each")
		{
			c := chain(100, big, true, 3)
			c.mods[0].inputs = append(c.mods[0].inputs, wInput{k: 'm', s: "m99"}) // 100-cycle
			emit(c, nil, "cycle-of-100")
		}
		{
			c := chain(100, big, true, 2)
			c.prod = true
			c.start, c.stop = 150, 950
			emit(c, nil, "chain-100-production")
		}
		for k := 0; k < 6; k++ {
			c := genValid(rng, rng.Range(80, 100), genCfg(rng))
			emit(c, nil, "random-80-100-modules")
			m := mutations[rng.Intn(len(mutations))]
			if m.f(rng, c) {
				emit(c, nil, "random-80-100-modules-mutated")
			}
		}
	}

	// 6. code size limit (thorough tier only: 300 MB through the encoder)
	if o.Thorough() {
		c := chain(3, big, true, 1)
		c.bins = []wBin{{"wasm/rust-v1", 150_000_000}, {"wasm/rust-v1", 150_000_001}}
		emit(c, nil, "code-size-above-300MB")
	}
}

var corpus = []string{
	// tier2: stage 1 of a graph that has the single stage 0 (index out of range in UsedModulesUpToStage
	// before fix 84ed6b1e, rejected with an error since)
	"T2 bt=T fs=0 seg=10 segnum=0 stage=1 stopnum=0 mc=1 ss=1 mbs=1 out=a bins=wasm%2Frust%2Dv1~0 M=a,m,0,0,-,rT",
	"T2 bt=T fs=0 seg=10 segnum=0 stage=0 stopnum=0 mc=1 ss=1 mbs=1 out=a bins=wasm%2Frust%2Dv1~0 M=a,m,0,0,-,rT",
	// F10: a module without kind; F12: an input without type; F11: binary index out of range
	"REQ bt=T fs=0 seg=10 fin=100 head=200 rc=n out=c start=5 stop=50 prod=1 cur=- dbg=- bins=wasm%2Frust%2Dv1~3 M=a,-,0,0,-,rT|c,m,0,0,-,ma",
	"REQ bt=T fs=0 seg=10 fin=100 head=200 rc=n out=c start=5 stop=50 prod=1 cur=- dbg=- bins=wasm%2Frust%2Dv1~3 M=c,m,0,0,-,n",
	"REQ bt=T fs=0 seg=10 fin=100 head=200 rc=n out=c start=5 stop=50 prod=1 cur=- dbg=- bins=wasm%2Frust%2Dv1~3 M=c,m,7,0,-,rT",
	// a params value spelled like the module's own name is not a cycle (fix 17e1a4e4)
	"REQ bt=T fs=0 seg=10 fin=100 head=200 rc=n out=c start=5 stop=50 prod=1 cur=- dbg=- bins=wasm%2Frust%2Dv1~3 M=c,m,0,0,-,pc/rT",
	// the accepted request of Props/C17.lean
	"REQ bt=T fs=0 seg=10 fin=100 head=200 rc=n out=c start=5 stop=50 prod=1 cur=- dbg=- bins=wasm%2Frust%2Dv1~3 M=a,m,0,0,-,rT|s,s,0,3,-,ma|c,m,0,0,-,t1~s/ma",
	// segment size 0 (server flag): divide by zero, excluded from the oracle
	"REQ bt=T fs=0 seg=0 fin=100 head=200 rc=n out=c start=5 stop=50 prod=1 cur=- dbg=- bins=wasm%2Frust%2Dv1~3 M=c,m,0,0,-,rT",
}

package main

import (
	"context"
	"fmt"
	"path/filepath"
	"strings"
	"time"

	"github.com/streamingfast/bstream"
	"github.com/streamingfast/bstream/stream"
	"github.com/streamingfast/dmetering"
	"github.com/streamingfast/substreams"
	"github.com/streamingfast/substreams/reqctx"
	"go.uber.org/zap"

	pbssinternal "github.com/streamingfast/substreams/pb/sf/substreams/intern/v2"
	pbsubstreamsrpc "github.com/streamingfast/substreams/pb/sf/substreams/rpc/v2"
	"github.com/streamingfast/substreams/pipeline/exec"
	"github.com/streamingfast/substreams/service"
	"github.com/streamingfast/substreams/wasm"
	"google.golang.org/protobuf/proto"

	"verifharness/common"
)

// tier2 side: service.ValidateTier2Request -> exec.NewOutputModuleGraph(out, true, modules, firstStreamable)
// -> execGraph.UsedModulesUpToStage(int(request.Stage)), the first steps of Tier2Service.processRange
// (getStores, which only parses store URLs, is left out).

type t2Case struct {
	w       *wCase // modules, binaries, output module, block type, first streamable block, segment size
	stage   uint32
	segNum  uint64
	stopNum uint64
	mc, ss  bool
	mbs     bool
}

func (t *t2Case) line() string {
	// reuse the module part of the tier1 line
	full := t.w.line()
	i := strings.Index(full, " bins=")
	return fmt.Sprintf("T2 bt=%s fs=%d seg=%d segnum=%d stage=%d stopnum=%d mc=%d ss=%d mbs=%d out=%s%s",
		encStr(t.w.cfg.bt), t.w.cfg.fs, t.w.cfg.seg, t.segNum, t.stage, t.stopNum, b2i(t.mc), b2i(t.ss), b2i(t.mbs), encStr(t.w.out), full[i:])
}

func parseT2(line string) *t2Case {
	w := strings.Fields(line)
	kv := map[string]string{}
	for _, t := range w[1:] {
		i := strings.IndexByte(t, '=')
		kv[t[:i]] = t[i+1:]
	}
	// borrow the tier1 parser for out / bins / M
	c := parseLine(fmt.Sprintf("REQ bt=%s fs=%s seg=%s fin=e head=e rc=n out=%s start=0 stop=0 prod=1 cur=- dbg=- bins=%s M=%s",
		kv["bt"], kv["fs"], kv["seg"], kv["out"], kv["bins"], kv["M"]))
	return &t2Case{w: c, stage: uint32(common.Atou(kv["stage"])), segNum: common.Atou(kv["segnum"]), stopNum: common.Atou(kv["stopnum"]),
		mc: kv["mc"] == "1", ss: kv["ss"] == "1", mbs: kv["mbs"] == "1"}
}

func (t *t2Case) toPB() *pbssinternal.ProcessRangeRequest {
	str := func(b bool, s string) string {
		if b {
			return s
		}
		return ""
	}
	return &pbssinternal.ProcessRangeRequest{
		StopBlockNum: t.stopNum, OutputModule: t.w.out, Modules: t.w.toPB().Modules, Stage: t.stage,
		MeteringConfig: str(t.mc, "null://"), FirstStreamableBlock: t.w.cfg.fs, MergedBlocksStore: str(t.mbs, filepath.Join(t2Dir, "merged")),
		StateStore: str(t.ss, filepath.Join(t2Dir, "state")), StateStoreDefaultTag: "tag", SegmentSize: t.w.cfg.seg, BlockType: t.w.cfg.bt, SegmentNumber: t.segNum,
	}
}

func pipelineTier2Real(req *pbssinternal.ProcessRangeRequest) result {
	stageNow = "validate"
	if err := service.ValidateTier2Request(req); err != nil {
		return result{class: "error", stage: "validate", detail: err.Error(), code: "invalid_argument"}
	}
	stageNow = "graph"
	execGraph, err := exec.NewOutputModuleGraph(req.OutputModule, true, req.Modules, req.FirstStreamableBlock)
	if err != nil {
		return result{class: "error", stage: "graph", detail: err.Error(), code: "invalid_argument"}
	}
	_ = execGraph.ModuleHashes().Get(req.OutputModule)
	stageNow = "upto"
	// processRange (fix 84ed6b1e): the stage number is checked before it indexes the stages
	if stages := len(execGraph.StagedUsedModules()); int(req.Stage) >= stages {
		return result{class: "error", stage: "upto", detail: "invalid stage", code: "invalid_argument"}
	}
	upto := execGraph.UsedModulesUpToStage(int(req.Stage))
	_ = execGraph.UsedIndexesModulesUpToStage(int(req.Stage))
	var st []string
	for _, stage := range execGraph.StagedUsedModules() {
		var ls []string
		for _, layer := range stage {
			ls = append(ls, showNames(layer))
		}
		st = append(st, strings.Join(ls, ","))
	}
	return result{class: "ok", stage: "done", detail: fmt.Sprintf("used=%s stages=%s upto=%s", showNames(execGraph.UsedModules()), strings.Join(st, ";"), showNames(upto))}
}

var t2Dir = "/nonexistent"

// the check driver sets SUBSTREAMS_WASM_RUNTIME=verif: register a runtime of that name that has no modules
func init() {
	wasm.RegisterModuleFactory("verif", wasm.ModuleFactoryFunc(func(ctx context.Context, wasmCode []byte, wasmCodeType string, registry *wasm.Registry) (wasm.Module, error) {
		return nil, fmt.Errorf("the harness runs no module code")
	}))
}

type nullEmitter struct{}

func (nullEmitter) Shutdown(error)                               {}
func (nullEmitter) Emit(ctx context.Context, ev dmetering.Event) {}

// processRangeReal calls the real Tier2Service.processRange (through the exported TestProcessRange) with
// a stream factory that has no blocks: a request that gets as far as opening the block stream ends with
// an error there.  Returns the outcome class and the panic value / error text.
func processRangeReal(req *pbssinternal.ProcessRangeRequest) (class, detail string) {
	ctx := reqctx.WithLogger(context.Background(), zap.NewNop())
	ctx = dmetering.WithBytesMeter(ctx)
	ctx = reqctx.WithEmitter(ctx, nullEmitter{})
	ctx = reqctx.WithTier2RequestParameters(ctx, reqctx.Tier2RequestParameters{
		BlockType: req.BlockType, StateBundleSize: req.SegmentSize, StateStoreURL: req.StateStore, StateStoreDefaultTag: "tag",
		MergedBlockStoreURL: req.MergedBlocksStore, FirstStreamableBlock: req.FirstStreamableBlock, MeteringConfig: req.MeteringConfig,
	})
	sf := func(ctx context.Context, h bstream.Handler, startBlockNum int64, stopBlockNum uint64, cursor string, finalBlocksOnly bool,
		cursorIsTarget bool, logger *zap.Logger, extraOpts ...stream.Option) (service.Streamable, error) {
		return nil, fmt.Errorf("the harness has no blocks")
	}
	svc := service.TestNewServiceTier2(false, sf)
	type res struct{ class, detail string }
	ch := make(chan res, 1)
	go func() {
		defer func() {
			if r := recover(); r != nil {
				ch <- res{"panic", fmt.Sprint(r)}
			}
		}()
		err := svc.TestProcessRange(ctx, req, func(substreams.ResponseFromAnyTier) error { return nil })
		if err != nil {
			ch <- res{"error", err.Error()}
		} else {
			ch <- res{"ok", ""}
		}
	}()
	tm := time.NewTimer(caseTimeout)
	defer tm.Stop()
	select {
	case r := <-ch:
		return r.class, r.detail
	case <-tm.C:
		return "hang", "no answer within 2s"
	}
}

func runT2Line(line string, tags []string) {
	t := parseT2(line)
	b, err := proto.Marshal(t.toPB())
	if err != nil {
		panic("T2 case line does not encode: " + line)
	}
	req := &pbssinternal.ProcessRangeRequest{}
	if err := proto.Unmarshal(b, req); err != nil {
		panic(err)
	}
	// wire-level fixpoint of the module part
	back := &t2Case{w: fromPB(&pbsubstreamsrpc.Request{OutputModule: req.OutputModule, Modules: req.Modules, ProductionMode: true}, t.w.cfg, "-"),
		stage: req.Stage, segNum: req.SegmentNumber, stopNum: req.StopBlockNum, mc: req.MeteringConfig != "", ss: req.StateStore != "", mbs: req.MergedBlocksStore != ""}
	back.w.cfg.bt, back.w.cfg.fs, back.w.cfg.seg = req.BlockType, req.FirstStreamableBlock, req.SegmentSize
	if back.line() != line {
		panic("T2 case line is not a wire-level fixpoint:\n " + line + "\n " + back.line())
	}
	ch := make(chan result, 1)
	go func() {
		defer func() {
			if r := recover(); r != nil {
				ch <- result{class: "panic", stage: stageNow, detail: fmt.Sprint(r)}
			}
		}()
		ch <- pipelineTier2Real(req)
	}()
	tm := time.NewTimer(caseTimeout)
	defer tm.Stop()
	var r result
	select {
	case r = <-ch:
	case <-tm.C:
		r = result{class: "hang", stage: stageNow, detail: "no answer within 2s"}
	}
	// What follows validation and graph construction in processRange is judged on the real processRange
	// (exported TestProcessRange).  For a stage number beyond the graph's stages the answer recorded for the
	// comparison with the model is what processRange itself does with the request: an error since 84ed6b1e;
	// should it index the stages with an unchecked request.Stage again, the answer becomes panic@upto (a
	// disagreement with the model) and the oracle reports C17/panic/tier2-processRange/index-out-of-range.
	// (A job of a later stage or segment waits, with retries, for store snapshots that the empty state store
	// of the harness does not have: besides the out-of-range cases only first-segment, first-stage requests
	// are sampled, and a time-out of processRange is counted, not judged.)
	special := len(tags) > 0 && (tags[0] == "replay" || tags[0] == "corpus")
	passedValidation := !(r.class == "error" && r.stage == "validate")
	stageOutOfRange := r.stage == "upto"
	if passedValidation && (stageOutOfRange || special || (out.N%2 == 0 && t.stage == 0 && t.segNum == 0)) {
		class, detail := processRangeReal(req)
		out.Count("tier2-processRange:" + class)
		if class == "panic" {
			out.Fail("C17/panic/tier2-processRange/"+panicReason(detail), "Tier2Service.processRange: "+detail, line)
		}
		if stageOutOfRange && class == "panic" {
			r = result{class: "panic", stage: "upto", detail: detail}
		}
		if stageOutOfRange && class != "panic" && class != "error" {
			out.Count("tier2-glue-drift:stage-out-of-range-but-processRange-" + class)
		}
	}
	if (r.class == "panic" || r.class == "hang") && r.stage != "upto" {
		reason := "timeout"
		if r.class == "panic" {
			reason = panicReason(r.detail)
		}
		out.Fail("C17/"+r.class+"/tier2-"+r.stage+"/"+reason, r.detail, line)
	}
	out.Case(line, r.answer(), len(t.w.mods) >= 2)
	out.Count("tier2-outcome:" + r.class + "@" + r.stage)
	for _, tg := range tags {
		out.Count("gen:" + tg)
		out.Count("gen:" + tg + "=>" + r.class + "@" + r.stage)
	}
}

// emitT2 derives an internal request from a (possibly mutated) tier1 case.
func emitT2(r *common.Rng, c *wCase, tag string) {
	rt, ok := roundTrip(c.toPB())
	if !ok || rt.Modules == nil {
		return
	}
	w := fromPB(rt, c.cfg, "-")
	t := &t2Case{w: w, mc: true, ss: true, mbs: true, segNum: uint64(r.Intn(40))}
	if r.Chance(1, 3) {
		t.segNum = 0
	}
	// stage: mostly a real stage of a small graph, sometimes beyond
	switch x := r.Intn(10); {
	case x < 6:
		t.stage = uint32(r.Intn(3))
	case x < 9:
		t.stage = uint32(r.Intn(8))
	default:
		t.stage = []uint32{100, 1 << 31, 1<<32 - 1}[r.Intn(3)]
	}
	if w.cfg.seg == 0 && r.Chance(3, 4) {
		w.cfg.seg = 10
	}
	if r.Chance(1, 25) {
		switch r.Intn(6) {
		case 0:
			t.mc = false
		case 1:
			t.ss = false
		case 2:
			t.mbs = false
		case 3:
			t.stopNum = uint64(r.Range(1, 100))
		case 4:
			w.cfg.bt = ""
		case 5:
			t.segNum = []uint64{1<<64 - 1, 1<<64 - 2, 1 << 63, 0}[r.Intn(4)]
			w.cfg.fs = uint64(r.Intn(50))
		}
	}
	runT2Line(t.line(), []string{"tier2:" + tag})
}

// probeMetering records, as a remark, what dmetering.New does with a metering_config whose scheme has no
// registered plugin: Tier2Service.ProcessRange passes request.MeteringConfig to it right after
// ValidateTier2Request (which only checks that the string is not empty).  Not part of the oracle: the
// handler itself cannot be called without a connect stream.
func probeMetering() {
	defer func() {
		if r := recover(); r != nil {
			out.Notes = append(out.Notes, fmt.Sprintf("remark (not an oracle failure): dmetering.New(%q) panics: %v -- Tier2Service.ProcessRange calls it with request.MeteringConfig, which ValidateTier2Request only checks for emptiness", "nosuchplugin://x", r))
		}
	}()
	_, _ = dmetering.New("nosuchplugin://x", zap.NewNop())
}

// vh_c17: correspondence cases + property oracle for C17 (malformed requests are rejected with an error,
// never with a crash or a hang).
//
// Real code driven, in the order and with the arguments of Tier1Service.Blocks / blocks():
//
//	service.ValidateTier1Request -> exec.NewOutputModuleGraph -> [first lines of blocks()] ->
//	pipeline.BuildRequestDetails -> [start==stop check, execGraph.ValidateRequestStartBlock] ->
//	[scheduleStores glue] -> plan.BuildTier1RequestPlan
//
// Every request is a wire-level request: it is marshalled and unmarshalled with the protobuf library
// before the real code sees it, and the case line is derived from the *decoded* message.
package main

import (
	"context"
	"errors"
	"fmt"
	"math"
	"path/filepath"
	"runtime"
	"sort"
	"strconv"
	"strings"
	"time"

	"connectrpc.com/connect"
	"github.com/streamingfast/bstream"
	bsstream "github.com/streamingfast/bstream/stream"
	"github.com/streamingfast/opaque"
	"github.com/streamingfast/substreams/block"
	"github.com/streamingfast/substreams/orchestrator/plan"
	pbsubstreamsrpc "github.com/streamingfast/substreams/pb/sf/substreams/rpc/v2"
	pbsubstreams "github.com/streamingfast/substreams/pb/sf/substreams/v1"
	"github.com/streamingfast/substreams/pipeline"
	"github.com/streamingfast/substreams/pipeline/exec"
	"github.com/streamingfast/substreams/service"
	"google.golang.org/protobuf/proto"

	"verifharness/common"
)

// ---------------------------------------------------------------- wire-level case (mirrors lean/Model/Validate.lean)

type wInput struct {
	k    byte // 'n' absent oneof, 'p' params, 'r' source, 'm' map, 't' store
	s    string
	mode int32
}
type wFilter struct {
	module string
	q      byte // 'n' absent, 's' query string, 'p' from params
}
type wModule struct {
	name   string
	kind   byte // '-', 'm', 's', 'i'
	binIdx uint32
	init   uint64
	filter *wFilter
	inputs []wInput
}
type wBin struct {
	typ string
	n   int
}
type wCfg struct {
	bt   string
	fs   uint64
	seg  uint64
	fin  *uint64
	head *uint64
	rc   string // "e", "n", "j<num>"
}
type wCase struct {
	cfg       wCfg
	out       string
	start     int64
	stop      uint64
	prod      bool
	cur       string // "-", "b<garbage>", "c<step>.<block>.<lib>"
	dbg       []string
	noModules bool
	bins      []wBin
	mods      []wModule
}

func encStr(s string) string {
	var b strings.Builder
	for i := 0; i < len(s); i++ {
		c := s[i]
		if (c >= 'a' && c <= 'z') || (c >= 'A' && c <= 'Z') || (c >= '0' && c <= '9') || c == '_' || c == ':' || c == '.' {
			b.WriteByte(c)
		} else {
			fmt.Fprintf(&b, "%%%02X", c)
		}
	}
	return b.String()
}
func decStr(s string) string {
	var b strings.Builder
	for i := 0; i < len(s); i++ {
		if s[i] == '%' && i+2 < len(s)+0 && i+2 <= len(s)-1 {
			v, err := strconv.ParseUint(s[i+1:i+3], 16, 8)
			if err != nil {
				panic("bad escape in " + s)
			}
			b.WriteByte(byte(v))
			i += 2
		} else {
			b.WriteByte(s[i])
		}
	}
	return b.String()
}

func optU(p *uint64) string {
	if p == nil {
		return "e"
	}
	return strconv.FormatUint(*p, 10)
}
func parseOptU(s string) *uint64 {
	if s == "e" {
		return nil
	}
	v := common.Atou(s)
	return &v
}

func (c *wCase) line() string {
	var sb strings.Builder
	fmt.Fprintf(&sb, "REQ bt=%s fs=%d seg=%d fin=%s head=%s rc=%s out=%s start=%d stop=%d prod=%d cur=%s",
		encStr(c.cfg.bt), c.cfg.fs, c.cfg.seg, optU(c.cfg.fin), optU(c.cfg.head), c.cfg.rc, encStr(c.out), c.start, c.stop, b2i(c.prod), c.cur)
	sb.WriteString(" dbg=")
	if len(c.dbg) == 0 {
		sb.WriteString("-")
	} else {
		for i, d := range c.dbg {
			if i > 0 {
				sb.WriteByte('+')
			}
			sb.WriteString(encStr(d))
		}
	}
	sb.WriteString(" bins=")
	switch {
	case c.noModules:
		sb.WriteString("x")
	case len(c.bins) == 0:
		sb.WriteString("-")
	default:
		for i, b := range c.bins {
			if i > 0 {
				sb.WriteByte('|')
			}
			fmt.Fprintf(&sb, "%s~%d", encStr(b.typ), b.n)
		}
	}
	sb.WriteString(" M=")
	if c.noModules || len(c.mods) == 0 {
		sb.WriteString("-")
	} else {
		for i, m := range c.mods {
			if i > 0 {
				sb.WriteByte('|')
			}
			f := "-"
			if m.filter != nil {
				f = encStr(m.filter.module) + "~" + string(m.filter.q)
			}
			ins := "-"
			if len(m.inputs) > 0 {
				var p []string
				for _, in := range m.inputs {
					switch in.k {
					case 'n':
						p = append(p, "n")
					case 't':
						p = append(p, fmt.Sprintf("t%d~%s", in.mode, encStr(in.s)))
					default:
						p = append(p, string(in.k)+encStr(in.s))
					}
				}
				ins = strings.Join(p, "/")
			}
			fmt.Fprintf(&sb, "%s,%c,%d,%d,%s,%s", encStr(m.name), m.kind, m.binIdx, m.init, f, ins)
		}
	}
	return sb.String()
}

func b2i(b bool) int {
	if b {
		return 1
	}
	return 0
}

func parseLine(line string) *wCase {
	w := strings.Fields(line)
	if len(w) == 0 || w[0] != "REQ" {
		panic("bad case line: " + line)
	}
	kv := map[string]string{}
	for _, t := range w[1:] {
		i := strings.IndexByte(t, '=')
		if i < 0 {
			panic("bad token " + t)
		}
		kv[t[:i]] = t[i+1:]
	}
	c := &wCase{}
	c.cfg.bt = decStr(kv["bt"])
	c.cfg.fs = common.Atou(kv["fs"])
	c.cfg.seg = common.Atou(kv["seg"])
	c.cfg.fin = parseOptU(kv["fin"])
	c.cfg.head = parseOptU(kv["head"])
	c.cfg.rc = kv["rc"]
	c.out = decStr(kv["out"])
	st, err := strconv.ParseInt(kv["start"], 10, 64)
	if err != nil {
		panic(err)
	}
	c.start = st
	c.stop = common.Atou(kv["stop"])
	c.prod = kv["prod"] == "1"
	c.cur = kv["cur"]
	if kv["dbg"] != "-" {
		for _, d := range strings.Split(kv["dbg"], "+") {
			c.dbg = append(c.dbg, decStr(d))
		}
	}
	switch kv["bins"] {
	case "x":
		c.noModules = true
		return c
	case "-":
	default:
		for _, b := range strings.Split(kv["bins"], "|") {
			p := strings.Split(b, "~")
			c.bins = append(c.bins, wBin{decStr(p[0]), common.Atoi(p[1])})
		}
	}
	if kv["M"] != "-" {
		for _, ms := range strings.Split(kv["M"], "|") {
			f := strings.Split(ms, ",")
			if len(f) != 6 {
				panic("bad module " + ms)
			}
			m := wModule{name: decStr(f[0]), kind: f[1][0], binIdx: uint32(common.Atou(f[2])), init: common.Atou(f[3])}
			if f[4] != "-" {
				p := strings.Split(f[4], "~")
				m.filter = &wFilter{decStr(p[0]), p[1][0]}
			}
			if f[5] != "-" {
				for _, is := range strings.Split(f[5], "/") {
					in := wInput{k: is[0]}
					switch is[0] {
					case 'n':
					case 't':
						p := strings.Split(is[1:], "~")
						md, err := strconv.ParseInt(p[0], 10, 32)
						if err != nil {
							panic(err)
						}
						in.mode = int32(md)
						in.s = decStr(p[1])
					default:
						in.s = decStr(is[1:])
					}
					m.inputs = append(m.inputs, in)
				}
			}
			c.mods = append(c.mods, m)
		}
	}
	return c
}

// ---------------------------------------------------------------- wCase <-> protobuf

func blockID(n uint64) string { return fmt.Sprintf("%da", n) }

// cursorString builds the start_cursor string of the request from the protocol form.
func cursorString(cur string) string {
	switch {
	case cur == "-" || cur == "":
		return ""
	case cur[0] == 'b':
		return decStr(cur[1:])
	case cur[0] == 'c':
		p := strings.Split(cur[1:], ".")
		step, blk, lib := common.Atou(p[0]), common.Atou(p[1]), common.Atou(p[2])
		c := &bstream.Cursor{Step: bstream.StepType(step), Block: bstream.NewBlockRef(blockID(blk), blk),
			LIB: bstream.NewBlockRef(blockID(lib), lib), HeadBlock: bstream.NewBlockRef(blockID(blk), blk)}
		return c.ToOpaque()
	}
	panic("bad cursor " + cur)
}

func (c *wCase) toPB() *pbsubstreamsrpc.Request {
	req := &pbsubstreamsrpc.Request{
		StartBlockNum: c.start, StopBlockNum: c.stop, StartCursor: cursorString(c.cur), ProductionMode: c.prod,
		OutputModule: c.out, DebugInitialStoreSnapshotForModules: c.dbg,
	}
	if c.noModules {
		return req
	}
	ms := &pbsubstreams.Modules{}
	for _, b := range c.bins {
		ms.Binaries = append(ms.Binaries, &pbsubstreams.Binary{Type: b.typ, Content: make([]byte, b.n)})
	}
	for _, m := range c.mods {
		pm := &pbsubstreams.Module{Name: m.name, BinaryIndex: m.binIdx, InitialBlock: m.init, BinaryEntrypoint: "e_" + m.name}
		switch m.kind {
		case 'm':
			pm.Kind = &pbsubstreams.Module_KindMap_{KindMap: &pbsubstreams.Module_KindMap{OutputType: "proto:t"}}
		case 's':
			pm.Kind = &pbsubstreams.Module_KindStore_{KindStore: &pbsubstreams.Module_KindStore{UpdatePolicy: pbsubstreams.Module_KindStore_UPDATE_POLICY_SET, ValueType: "string"}}
		case 'i':
			pm.Kind = &pbsubstreams.Module_KindBlockIndex_{KindBlockIndex: &pbsubstreams.Module_KindBlockIndex{OutputType: "proto:sf.substreams.index.v1.Keys"}}
		}
		for _, in := range m.inputs {
			pi := &pbsubstreams.Module_Input{}
			switch in.k {
			case 'p':
				pi.Input = &pbsubstreams.Module_Input_Params_{Params: &pbsubstreams.Module_Input_Params{Value: in.s}}
			case 'r':
				pi.Input = &pbsubstreams.Module_Input_Source_{Source: &pbsubstreams.Module_Input_Source{Type: in.s}}
			case 'm':
				pi.Input = &pbsubstreams.Module_Input_Map_{Map: &pbsubstreams.Module_Input_Map{ModuleName: in.s}}
			case 't':
				pi.Input = &pbsubstreams.Module_Input_Store_{Store: &pbsubstreams.Module_Input_Store{ModuleName: in.s, Mode: pbsubstreams.Module_Input_Store_Mode(in.mode)}}
			}
			pm.Inputs = append(pm.Inputs, pi)
		}
		if m.filter != nil {
			bf := &pbsubstreams.Module_BlockFilter{Module: m.filter.module}
			switch m.filter.q {
			case 's':
				bf.Query = &pbsubstreams.Module_BlockFilter_QueryString{QueryString: "k1 || k2"}
			case 'p':
				bf.Query = &pbsubstreams.Module_BlockFilter_QueryFromParams{QueryFromParams: &pbsubstreams.Module_QueryFromParams{}}
			}
			pm.BlockFilter = bf
		}
		ms.Modules = append(ms.Modules, pm)
	}
	req.Modules = ms
	return req
}

// fromPB reads a decoded request back into the wire-level form (cfg and cursor are carried over).
func fromPB(req *pbsubstreamsrpc.Request, cfg wCfg, cur string) *wCase {
	c := &wCase{cfg: cfg, out: req.OutputModule, start: req.StartBlockNum, stop: req.StopBlockNum, prod: req.ProductionMode,
		cur: cur, dbg: req.DebugInitialStoreSnapshotForModules}
	if req.Modules == nil {
		c.noModules = true
		return c
	}
	for _, b := range req.Modules.Binaries {
		c.bins = append(c.bins, wBin{b.Type, len(b.Content)})
	}
	for _, pm := range req.Modules.Modules {
		m := wModule{name: pm.Name, binIdx: pm.BinaryIndex, init: pm.InitialBlock, kind: '-'}
		switch pm.Kind.(type) {
		case *pbsubstreams.Module_KindMap_:
			m.kind = 'm'
		case *pbsubstreams.Module_KindStore_:
			m.kind = 's'
		case *pbsubstreams.Module_KindBlockIndex_:
			m.kind = 'i'
		}
		for _, pi := range pm.Inputs {
			switch i := pi.Input.(type) {
			case *pbsubstreams.Module_Input_Params_:
				m.inputs = append(m.inputs, wInput{k: 'p', s: i.Params.Value})
			case *pbsubstreams.Module_Input_Source_:
				m.inputs = append(m.inputs, wInput{k: 'r', s: i.Source.Type})
			case *pbsubstreams.Module_Input_Map_:
				m.inputs = append(m.inputs, wInput{k: 'm', s: i.Map.ModuleName})
			case *pbsubstreams.Module_Input_Store_:
				m.inputs = append(m.inputs, wInput{k: 't', s: i.Store.ModuleName, mode: int32(i.Store.Mode)})
			default:
				m.inputs = append(m.inputs, wInput{k: 'n'})
			}
		}
		if pm.BlockFilter != nil {
			f := &wFilter{module: pm.BlockFilter.Module, q: 'n'}
			switch pm.BlockFilter.Query.(type) {
			case *pbsubstreams.Module_BlockFilter_QueryString:
				f.q = 's'
			case *pbsubstreams.Module_BlockFilter_QueryFromParams:
				f.q = 'p'
			}
			m.filter = f
		}
		c.mods = append(c.mods, m)
	}
	return c
}

// roundTrip: proto.Marshal then proto.Unmarshal into a fresh message. ok=false when the encoder rejects
// the message (invalid UTF-8, nil entries): such a message cannot arrive over the wire.
func roundTrip(req *pbsubstreamsrpc.Request) (out *pbsubstreamsrpc.Request, ok bool) {
	defer func() {
		if r := recover(); r != nil {
			out, ok = nil, false
		}
	}()
	b, err := proto.Marshal(req)
	if err != nil {
		return nil, false
	}
	out = &pbsubstreamsrpc.Request{}
	if err := proto.Unmarshal(b, out); err != nil {
		return nil, false
	}
	return out, true
}

// ---------------------------------------------------------------- running the real code

type result struct {
	class  string // ok | error | panic | hang
	stage  string
	detail string // ok: the summary; panic: the panic value; error: the error text
	code   string // error: invalid_argument | internal (what toConnectError would make of it)
}

var stageNow string // written by the worker goroutine only; read after it finished or timed out

func panicReason(v string) string {
	for _, p := range [][2]string{{"index out of range", "index-out-of-range"}, {"nil pointer", "nil-dereference"},
		{"unsupported kind", "unsupported-kind"}, {"unsupported input type", "unsupported-input-type"},
		{"divide by zero", "divide-by-zero"}, {"unable to find output module", "output-module-not-found"},
		{"vertex out of range", "vertex-out-of-range"}, {"slice bounds", "slice-bounds"}, {"stack overflow", "stack-overflow"}} {
		if strings.Contains(v, p[0]) {
			return p[1]
		}
	}
	return "other"
}

func showNames(ms []*pbsubstreams.Module) string {
	var n []string
	for _, m := range ms {
		n = append(n, encStr(m.Name))
	}
	sort.Strings(n)
	return strings.Join(n, "+")
}
func showRange(r *block.Range) string {
	if r == nil {
		return "nil"
	}
	return fmt.Sprintf("%d-%d", r.StartBlock, r.ExclusiveEndBlock)
}

func errCode(err error) string {
	var ce *connect.Error
	if errors.As(err, &ce) {
		if ce.Code() == connect.CodeInvalidArgument {
			return "invalid_argument"
		}
		return "connect_" + ce.Code().String()
	}
	var ia *bsstream.ErrInvalidArg
	if errors.As(err, &ia) {
		return "invalid_argument"
	}
	return "internal"
}

// pipelineReal mirrors Tier1Service.Blocks / blocks() up to the request plan.
func pipelineReal(c *wCase, req *pbsubstreamsrpc.Request) (res result) {
	ctx := context.Background()
	stageNow = "validate"
	bstream.GetProtocolFirstStreamableBlock = c.cfg.fs

	// Blocks(): `if request.Modules == nil` is subsumed by Request.Validate (same answer: invalid argument)
	if err := service.ValidateTier1Request(req, c.cfg.bt); err != nil {
		return result{class: "error", stage: "validate", detail: err.Error(), code: "invalid_argument"}
	}

	stageNow = "graph"
	execGraph, err := exec.NewOutputModuleGraph(req.OutputModule, req.ProductionMode, req.Modules, bstream.GetProtocolFirstStreamableBlock)
	if err != nil {
		return result{class: "error", stage: "graph", detail: err.Error(), code: errCode(bsstream.NewErrInvalidArg(err.Error()))}
	}
	_ = execGraph.ModuleHashes().Get(req.OutputModule)

	stageNow = "details"
	// blocks(), first lines
	chainFirstStreamableBlock := bstream.GetProtocolFirstStreamableBlock
	if req.StartBlockNum > 0 && req.StartBlockNum < int64(chainFirstStreamableBlock) {
		return result{class: "error", stage: "details", detail: "invalid start block", code: "invalid_argument"}
	} else if req.StartBlockNum < 0 && req.StopBlockNum > 0 {
		if int64(req.StopBlockNum)+int64(req.StartBlockNum) < int64(chainFirstStreamableBlock) {
			req.StartBlockNum = int64(chainFirstStreamableBlock)
		}
	} else if req.StartBlockNum == 0 {
		req.StartBlockNum = int64(chainFirstStreamableBlock)
	}
	getRecentFinalBlock := func() (uint64, error) {
		if c.cfg.fin == nil {
			return 0, fmt.Errorf("no final block")
		}
		return *c.cfg.fin, nil
	}
	getHeadBlock := func() (uint64, error) {
		if c.cfg.head == nil {
			return 0, fmt.Errorf("no head block")
		}
		return *c.cfg.head, nil
	}
	resolveCursor := func(ctx context.Context, cur *bstream.Cursor) (bstream.BlockRef, bstream.BlockRef, error) {
		head := bstream.NewBlockRef("head", 1_000_000)
		switch {
		case c.cfg.rc == "e":
			return nil, nil, fmt.Errorf("cannot resolve")
		case c.cfg.rc == "n":
			return nil, head, nil
		default:
			j := common.Atou(c.cfg.rc[1:])
			return bstream.NewBlockRef(blockID(j), j), head, nil
		}
	}
	requestDetails, _, err := pipeline.BuildRequestDetails(ctx, req, getRecentFinalBlock, resolveCursor, getHeadBlock, c.cfg.seg)
	if err != nil {
		err = fmt.Errorf("build request details: %w", err)
		return result{class: "error", stage: "details", detail: err.Error(), code: errCode(err)}
	}

	stageNow = "checks"
	if requestDetails.ResolvedStartBlockNum == req.StopBlockNum && req.StopBlockNum != 0 {
		return result{class: "error", stage: "checks", detail: "start block and stop block are the same", code: "invalid_argument"}
	}
	if err := execGraph.ValidateRequestStartBlock(requestDetails.ResolvedStartBlockNum); err != nil {
		return result{class: "error", stage: "checks", detail: err.Error(), code: "invalid_argument"}
	}

	stageNow = "plan"
	segmentSize := c.cfg.seg
	scheduleStores := execGraph.StagedUsedModules()[0].LastLayer().IsStoreLayer()
	var lowestStoresInitBlock uint64
	if scheduleStores {
		lowestStoresInitBlock = *execGraph.LowestStoresInitBlock()
	}
	reqPlan, err := plan.BuildTier1RequestPlan(
		requestDetails.ProductionMode,
		segmentSize,
		execGraph.LowestInitBlock(),
		lowestStoresInitBlock,
		requestDetails.ResolvedStartBlockNum,
		requestDetails.LinearHandoffBlockNum,
		requestDetails.StopBlockNum,
		scheduleStores,
	)
	if err != nil {
		err = fmt.Errorf("error building request plan: %w", err)
		return result{class: "error", stage: "plan", detail: err.Error(), code: errCode(err)}
	}

	var st []string
	for _, stage := range execGraph.StagedUsedModules() {
		var ls []string
		for _, layer := range stage {
			ls = append(ls, showNames(layer))
		}
		st = append(st, strings.Join(ls, ","))
	}
	lows := "nil"
	if p := execGraph.LowestStoresInitBlock(); p != nil {
		lows = strconv.FormatUint(*p, 10)
	}
	sum := fmt.Sprintf("used=%s stages=%s low=%d lows=%s start=%d handoff=%d stores=%s write=%s read=%s linear=%s",
		showNames(execGraph.UsedModules()), strings.Join(st, ";"), execGraph.LowestInitBlock(), lows,
		requestDetails.ResolvedStartBlockNum, requestDetails.LinearHandoffBlockNum,
		showRange(reqPlan.BuildStores), showRange(reqPlan.WriteExecOut), showRange(reqPlan.ReadExecOut), showRange(reqPlan.LinearPipeline))
	return result{class: "ok", stage: "done", detail: sum}
}

const caseTimeout = 2 * time.Second

// runGuarded runs the real pipeline in a goroutine under recover with a time-out.
func runGuarded(c *wCase, req *pbsubstreamsrpc.Request) result {
	ch := make(chan result, 1)
	go func() {
		defer func() {
			if r := recover(); r != nil {
				ch <- result{class: "panic", stage: stageNow, detail: fmt.Sprint(r)}
			}
		}()
		ch <- pipelineReal(c, req)
	}()
	t := time.NewTimer(caseTimeout)
	defer t.Stop()
	select {
	case r := <-ch:
		return r
	case <-t.C:
		return result{class: "hang", stage: stageNow, detail: "no answer within 2s"}
	}
}

func (r result) answer() string {
	if r.class == "ok" {
		return "ok " + r.detail
	}
	return r.class + "@" + r.stage
}

var out *common.Out
var notedInternal bool
var maxAlloc uint64
var maxAllocLine string

// hangs: every hung case leaves a goroutine spinning in the real code for the rest of the run; after a few of them the
// remaining cases are not run (the failures found so far are reported, the machine is not saturated)
var hangs int

const maxHangs = 6

// runLine: the single path every case takes (generated or replayed).
func runLine(line string, tags []string) {
	if hangs >= maxHangs {
		out.Count("not-run-after-hangs")
		return
	}
	c := parseLine(line)
	// a 'b' cursor must not parse, a 'c' cursor must parse back to the same numbers (generator sanity)
	if c.cur != "-" {
		cs := cursorString(c.cur)
		cu, err := bstream.CursorFromOpaque(cs)
		if c.cur[0] == 'b' && (err == nil || cs == "") {
			panic("generator: unparsable cursor parses: " + c.cur)
		}
		if c.cur[0] == 'c' {
			p := strings.Split(c.cur[1:], ".")
			if err != nil || uint64(cu.Step) != common.Atou(p[0]) || cu.Block.Num() != common.Atou(p[1]) || cu.LIB.Num() != common.Atou(p[2]) {
				panic("generator: cursor does not parse back: " + c.cur)
			}
		}
	}
	req, ok := roundTrip(c.toPB())
	if !ok {
		panic("case line does not encode: " + line)
	}
	if back := fromPB(req, c.cfg, c.cur).line(); back != line {
		panic("case line is not a wire-level fixpoint:\n " + line + "\n " + back)
	}
	measure := len(c.mods) >= 13 || out.N%16 == 0
	var m0 runtime.MemStats
	if measure {
		runtime.ReadMemStats(&m0)
	}
	r := runGuarded(c, req)
	if r.class == "hang" {
		hangs++
	}
	if measure {
		var m1 runtime.MemStats
		runtime.ReadMemStats(&m1)
		d := m1.TotalAlloc - m0.TotalAlloc
		if d > maxAlloc {
			maxAlloc, maxAllocLine = d, line
		}
		out.Count("alloc-measured")
		// 512 MiB on top of what the request itself carries (binaries are re-read once per module hash)
		code := uint64(0)
		for _, b := range c.bins {
			code += uint64(b.n)
		}
		if d > 512<<20+code*uint64(len(c.mods)+1)*4 && c.cfg.seg != 0 {
			out.Fail("C17/alloc/"+r.stage, fmt.Sprintf("%d bytes allocated while handling one request", d), line)
		}
	}
	out.Case(line, r.answer(), len(c.mods) >= 2)
	out.Count("outcome:" + r.class + "@" + r.stage)
	if r.class == "error" {
		out.Count("error-code:" + r.stage + ":" + r.code)
		if r.stage == "plan" && r.code == "internal" && !notedInternal {
			notedInternal = true
			out.Notes = append(out.Notes, "remark (not an oracle failure): a rejection decided by the request alone is answered with code Internal, not InvalidArgument (toConnectError on a plain error): "+r.detail+" :: "+line)
		}
	}
	for _, t := range tags {
		out.Count("gen:" + t)
		out.Count("gen:" + t + "=>" + r.class + "@" + r.stage)
	}
	out.Count(fmt.Sprintf("modules:%s", bucket(len(c.mods))))
	// oracle: the real code answers ok or error; a panic or a hang is a failure.
	// (segment size 0 is a server misconfiguration, not a request: excluded)
	if (r.class == "panic" || r.class == "hang") && c.cfg.seg != 0 {
		reason := "timeout"
		if r.class == "panic" {
			reason = panicReason(r.detail)
		}
		out.Fail("C17/"+r.class+"/"+r.stage+"/"+reason, r.detail, line)
	}
	if c.cfg.seg == 0 {
		out.Count("cfg:segment-size-0")
	}
}

func bucket(n int) string {
	switch {
	case n == 0:
		return "0"
	case n <= 2:
		return "1-2"
	case n <= 6:
		return "3-6"
	case n <= 12:
		return "7-12"
	case n <= 30:
		return "13-30"
	case n <= 100:
		return "31-100"
	}
	return ">100"
}

// emit: a generated request (possibly with Go-only shapes) -> wire -> case line -> runLine.
func emit(c *wCase, pbMut func(*pbsubstreamsrpc.Request), tags ...string) {
	req := c.toPB()
	if pbMut != nil {
		pbMut(req)
	}
	rt, ok := roundTrip(req)
	if !ok {
		out.Count("gen:not-encodable")
		return
	}
	runLine(fromPB(rt, c.cfg, c.cur).line(), tags)
}

// ---------------------------------------------------------------- generator

const blockT = "sf.test.v1.Block"
const clockT = "sf.substreams.v1.Clock"

var goodTypes = []string{"wasm/rust-v1", "wasip1/tinygo-v1", "wasm/rust-v1+wasm-bindgen-shims", "wasm/rust-v1+wasm-bindgen-shims=1, wasm-bindgen-shims", "wasip1/tinygo-v1+ wasm-bindgen-shims\t",
	"wasm/rust-v1+\u00a0wasm-bindgen-shims\u2003", "wasm/rust-v1+\u0085\u3000wasm-bindgen-shims=\u00a0,\u1680wasm-bindgen-shims\u205f\u2028\u2029\u202f\u200a"}
var badTypes = []string{"", "wasm/rust-v2", "rust", "wasm/rust-v1+", "wasm/rust-v1+foo", "wasm/rust-v1+wasm-bindgen-shims,", "+wasm-bindgen-shims", "wasm/rust-v1 ", " wasm/rust-v1",
	"wasm/rust-v1+wasm-bindgen-shims+x", "wasm/rust-v1+=", "wasm/rust-v1+ wasm-bindgen-shims ", "wasm/rust-v1+wasm-bindgen-shimś", "WASM/RUST-V1", "wasip1/tinygo-v1+wasm-bindgen-shims=a=b,x",
	"wasm/rust-v1+\u200bwasm-bindgen-shims", "wasm/rust-v1+wasm-bindgen-shims\u00a0x", "wasm/rust-v1\u00a0", "wasm/rust-v1+wasm\u2003bindgen-shims"}
var badNames = []string{"", "1abc", "_a", "a-b", "a b", "é", "aé", "a:", ":a", "a::b", "a:1b", strings.Repeat("a", 65), "a\n", "a.b", "a/b", "%41", "a%"}
var okOddNames = []string{"a", "A_1", strings.Repeat("z", 64), "imp:mod_1", "x:y:z9"}

func u64p(v uint64) *uint64 { return &v }

func genCfg(r *common.Rng) wCfg {
	cfg := wCfg{bt: blockT, rc: "n"}
	cfg.fs = []uint64{0, 0, 0, 1, 5, 100}[r.Intn(6)]
	cfg.seg = []uint64{10, 10, 10, 1, 7, 100, 1000}[r.Intn(7)]
	if r.Chance(9, 10) {
		cfg.fin = u64p(uint64(r.Intn(400)))
		if r.Chance(1, 6) {
			cfg.fin = u64p(uint64(r.Intn(40)))
		}
	}
	if r.Chance(9, 10) {
		cfg.head = u64p(uint64(r.Intn(500)))
	}
	switch r.Intn(6) {
	case 0:
		cfg.rc = "e"
	case 1, 2:
		cfg.rc = fmt.Sprintf("j%d", r.Intn(300))
	}
	return cfg
}

// genValid builds a well-formed request: a DAG of maps / stores / block indexes with filters.
func genValid(r *common.Rng, n int, cfg wCfg) *wCase {
	c := &wCase{cfg: cfg}
	nb := r.Range(1, 3)
	for i := 0; i < nb; i++ {
		c.bins = append(c.bins, wBin{goodTypes[r.Intn(len(goodTypes))], r.Intn(40)})
	}
	prefix := ""
	if r.Chance(1, 8) {
		prefix = "imp:"
	}
	var maps, stores, idxs []int
	base := cfg.fs
	for i := 0; i < n; i++ {
		m := wModule{name: fmt.Sprintf("%sm%d", prefix, i), binIdx: uint32(r.Intn(nb))}
		switch x := r.Intn(10); {
		case x < 5 || i == n-1:
			m.kind = 'm'
		case x < 8:
			m.kind = 's'
		default:
			m.kind = 'i'
		}
		// initial block: at or above every dependency's (0 = unset = first streamable)
		init := uint64(0)
		if r.Chance(1, 2) {
			init = base + uint64(r.Intn(60))
		}
		hasParams := false
		if r.Chance(1, 5) {
			m.inputs = append(m.inputs, wInput{k: 'p', s: fmt.Sprintf("v=%d", r.Intn(9))})
			hasParams = true
		}
		if r.Chance(3, 5) || i == 0 {
			t := blockT
			if r.Chance(1, 4) {
				t = clockT
			}
			m.inputs = append(m.inputs, wInput{k: 'r', s: t})
		}
		nm := r.Intn(3)
		for k := 0; k < nm && len(maps) > 0; k++ {
			j := maps[r.Intn(len(maps))]
			m.inputs = append(m.inputs, wInput{k: 'm', s: c.mods[j].name})
			if c.mods[j].init > init {
				init = c.mods[j].init
			}
		}
		ns := r.Intn(3)
		for k := 0; k < ns && len(stores) > 0 && m.kind != 'i'; k++ {
			j := stores[r.Intn(len(stores))]
			m.inputs = append(m.inputs, wInput{k: 't', s: c.mods[j].name, mode: int32(r.Range(1, 2))})
			if c.mods[j].init > init {
				init = c.mods[j].init
			}
		}
		if len(m.inputs) == 0 || (len(m.inputs) == 1 && hasParams && r.Chance(1, 2)) {
			m.inputs = append(m.inputs, wInput{k: 'r', s: blockT})
		}
		if len(idxs) > 0 && m.kind != 'i' && r.Chance(1, 4) {
			j := idxs[r.Intn(len(idxs))]
			q := byte('s')
			if hasParams && r.Chance(1, 2) {
				q = 'p'
			}
			m.filter = &wFilter{c.mods[j].name, q}
			if c.mods[j].init > init {
				init = c.mods[j].init
			}
		}
		m.init = init
		switch m.kind {
		case 'm':
			maps = append(maps, i)
		case 's':
			stores = append(stores, i)
		case 'i':
			idxs = append(idxs, i)
		}
		c.mods = append(c.mods, m)
	}
	// output: a map (mostly the last one) or an index
	oi := n - 1
	if r.Chance(1, 4) {
		cands := append(append([]int{}, maps...), idxs...)
		oi = cands[r.Intn(len(cands))]
	}
	c.out = c.mods[oi].name
	// shuffle module order so that slice order is not a topological order
	if r.Chance(2, 3) {
		for i := n - 1; i > 0; i-- {
			j := r.Intn(i + 1)
			c.mods[i], c.mods[j] = c.mods[j], c.mods[i]
		}
	}
	c.prod = r.Bool()
	outInit := uint64(0)
	for _, m := range c.mods {
		if m.name == c.out {
			outInit = m.init
		}
	}
	if outInit == 0 {
		outInit = cfg.fs
	}
	c.start = int64(outInit) + int64(r.Intn(80))
	if r.Chance(1, 10) {
		c.start = 0
	}
	switch r.Intn(5) {
	case 0:
		c.stop = 0
	default:
		c.stop = uint64(c.start) + 1 + uint64(r.Intn(200))
	}
	c.cur = "-"
	if !c.prod && len(stores) > 0 && r.Chance(1, 6) {
		c.dbg = []string{c.mods0name(stores, r)}
	}
	return c
}

func (c *wCase) mods0name(stores []int, r *common.Rng) string {
	var names []string
	for _, m := range c.mods {
		if m.kind == 's' {
			names = append(names, m.name)
		}
	}
	return names[r.Intn(len(names))]
}

func (c *wCase) clone() *wCase {
	d := *c
	d.dbg = append([]string{}, c.dbg...)
	d.bins = append([]wBin{}, c.bins...)
	d.mods = make([]wModule, len(c.mods))
	for i, m := range c.mods {
		m.inputs = append([]wInput{}, m.inputs...)
		if m.filter != nil {
			f := *m.filter
			m.filter = &f
		}
		d.mods[i] = m
	}
	return &d
}

func (c *wCase) idxOfKind(r *common.Rng, k byte) int {
	var l []int
	for i, m := range c.mods {
		if m.kind == k {
			l = append(l, i)
		}
	}
	if len(l) == 0 {
		return -1
	}
	return l[r.Intn(len(l))]
}
func (c *wCase) idxByName(n string) int {
	for i, m := range c.mods {
		if m.name == n {
			return i
		}
	}
	return -1
}

type mutation struct {
	name string
	f    func(r *common.Rng, c *wCase) bool // false = not applicable to this skeleton
}

func pick(r *common.Rng, c *wCase) int { return r.Intn(len(c.mods)) }

// pickUsed prefers the output module or one of its direct dependencies so that the mutation is on the executed path
func pickUsed(r *common.Rng, c *wCase) int {
	o := c.idxByName(c.out)
	if o < 0 || r.Chance(1, 3) {
		return pick(r, c)
	}
	if r.Chance(1, 2) {
		return o
	}
	var deps []int
	for _, in := range c.mods[o].inputs {
		if in.k == 'm' || in.k == 't' {
			if j := c.idxByName(in.s); j >= 0 {
				deps = append(deps, j)
			}
		}
	}
	if len(deps) == 0 {
		return o
	}
	return deps[r.Intn(len(deps))]
}

var mutations = []mutation{
	{"absent-kind", func(r *common.Rng, c *wCase) bool { c.mods[pickUsed(r, c)].kind = '-'; return true }},
	{"absent-input-oneof", func(r *common.Rng, c *wCase) bool {
		m := &c.mods[pickUsed(r, c)]
		if len(m.inputs) == 0 || r.Chance(1, 3) {
			m.inputs = append(m.inputs, wInput{k: 'n'})
		} else {
			m.inputs[r.Intn(len(m.inputs))] = wInput{k: 'n'}
		}
		return true
	}},
	{"dangling-map-ref", func(r *common.Rng, c *wCase) bool {
		m := &c.mods[pickUsed(r, c)]
		m.inputs = append(m.inputs, wInput{k: 'm', s: []string{"nope", "", "m999", "M0"}[r.Intn(4)]})
		return true
	}},
	{"dangling-store-ref", func(r *common.Rng, c *wCase) bool {
		m := &c.mods[pickUsed(r, c)]
		m.inputs = append(m.inputs, wInput{k: 't', s: []string{"nope", "", "m999"}[r.Intn(3)], mode: 1})
		return true
	}},
	{"dangling-filter-ref", func(r *common.Rng, c *wCase) bool {
		c.mods[pickUsed(r, c)].filter = &wFilter{[]string{"nope", "", "m999"}[r.Intn(3)], 's'}
		return true
	}},
	{"map-input-refers-to-store", func(r *common.Rng, c *wCase) bool {
		j := c.idxOfKind(r, 's')
		if r.Bool() {
			j = c.idxOfKind(r, 'i')
		}
		if j < 0 {
			return false
		}
		m := &c.mods[pickUsed(r, c)]
		m.inputs = append(m.inputs, wInput{k: 'm', s: c.mods[j].name})
		return true
	}},
	{"store-input-refers-to-map", func(r *common.Rng, c *wCase) bool {
		j := c.idxOfKind(r, 'm')
		if r.Chance(1, 3) {
			j = c.idxOfKind(r, 'i')
		}
		if j < 0 {
			return false
		}
		m := &c.mods[pickUsed(r, c)]
		m.inputs = append(m.inputs, wInput{k: 't', s: c.mods[j].name, mode: 1})
		return true
	}},
	{"filter-refers-to-non-index", func(r *common.Rng, c *wCase) bool {
		j := c.idxOfKind(r, []byte{'m', 's'}[r.Intn(2)])
		if j < 0 {
			return false
		}
		c.mods[pickUsed(r, c)].filter = &wFilter{c.mods[j].name, 's'}
		return true
	}},
	{"duplicate-name", func(r *common.Rng, c *wCase) bool {
		if len(c.mods) < 2 {
			return false
		}
		i, j := pick(r, c), pick(r, c)
		if i == j {
			return false
		}
		c.mods[i].name = c.mods[j].name
		return true
	}},
	{"duplicate-module", func(r *common.Rng, c *wCase) bool {
		c.mods = append(c.mods, c.clone().mods[pickUsed(r, c)])
		return true
	}},
	{"bad-name", func(r *common.Rng, c *wCase) bool {
		i := pickUsed(r, c)
		old, nw := c.mods[i].name, badNames[r.Intn(len(badNames))]
		c.rename(old, nw)
		return true
	}},
	{"odd-but-valid-name", func(r *common.Rng, c *wCase) bool {
		i := pickUsed(r, c)
		c.rename(c.mods[i].name, okOddNames[r.Intn(len(okOddNames))])
		return true
	}},
	{"binary-index-out-of-range", func(r *common.Rng, c *wCase) bool {
		c.mods[pickUsed(r, c)].binIdx = []uint32{uint32(len(c.bins)), uint32(len(c.bins)) + 7, math.MaxUint32, 1 << 31}[r.Intn(4)]
		return true
	}},
	{"zero-binaries", func(r *common.Rng, c *wCase) bool { c.bins = nil; return true }},
	{"bad-binary-type", func(r *common.Rng, c *wCase) bool {
		if len(c.bins) == 0 {
			return false
		}
		c.bins[r.Intn(len(c.bins))].typ = badTypes[r.Intn(len(badTypes))]
		return true
	}},
	{"unused-bad-binary-type", func(r *common.Rng, c *wCase) bool {
		c.bins = append(c.bins, wBin{badTypes[r.Intn(len(badTypes))], 3})
		return true
	}},
	{"self-reference", func(r *common.Rng, c *wCase) bool {
		m := &c.mods[pickUsed(r, c)]
		switch m.kind {
		case 'm':
			m.inputs = append(m.inputs, wInput{k: 'm', s: m.name})
		case 's':
			m.inputs = append(m.inputs, wInput{k: 't', s: m.name, mode: 1})
		case 'i':
			m.filter = &wFilter{m.name, 's'}
		default:
			return false
		}
		return true
	}},
	{"two-cycle", func(r *common.Rng, c *wCase) bool {
		// a map A that B reads gets B as an input
		for _, bi := range perm(r, len(c.mods)) {
			b := &c.mods[bi]
			if b.kind != 'm' {
				continue
			}
			for _, in := range b.inputs {
				if in.k == 'm' {
					if a := c.idxByName(in.s); a >= 0 {
						c.mods[a].inputs = append(c.mods[a].inputs, wInput{k: 'm', s: b.name})
						return true
					}
				}
			}
		}
		return false
	}},
	{"three-cycle", func(r *common.Rng, c *wCase) bool {
		for _, ci := range perm(r, len(c.mods)) {
			cm := &c.mods[ci]
			if cm.kind != 'm' {
				continue
			}
			for _, in := range cm.inputs {
				if in.k != 'm' {
					continue
				}
				b := c.idxByName(in.s)
				if b < 0 {
					continue
				}
				for _, in2 := range c.mods[b].inputs {
					if in2.k == 'm' {
						if a := c.idxByName(in2.s); a >= 0 {
							c.mods[a].inputs = append(c.mods[a].inputs, wInput{k: 'm', s: cm.name})
							return true
						}
					}
				}
			}
		}
		return false
	}},
	{"cycle-through-filter", func(r *common.Rng, c *wCase) bool {
		// index I gets a map input M where M is filtered by I
		for _, mi := range perm(r, len(c.mods)) {
			m := &c.mods[mi]
			if m.filter == nil || m.kind != 'm' {
				continue
			}
			if i := c.idxByName(m.filter.module); i >= 0 {
				c.mods[i].inputs = append(c.mods[i].inputs, wInput{k: 'm', s: m.name})
				return true
			}
		}
		return false
	}},
	{"cycle-through-store", func(r *common.Rng, c *wCase) bool {
		for _, si := range perm(r, len(c.mods)) {
			s := &c.mods[si]
			if s.kind != 's' {
				continue
			}
			for _, in := range s.inputs {
				if in.k == 'm' {
					if a := c.idxByName(in.s); a >= 0 {
						c.mods[a].inputs = append(c.mods[a].inputs, wInput{k: 't', s: s.name, mode: 2})
						return true
					}
				}
			}
		}
		return false
	}},
	{"params-not-first", func(r *common.Rng, c *wCase) bool {
		m := &c.mods[pickUsed(r, c)]
		m.inputs = append(m.inputs, wInput{k: 'p', s: "late"})
		return len(m.inputs) > 1
	}},
	{"params-only", func(r *common.Rng, c *wCase) bool {
		c.mods[pickUsed(r, c)].inputs = []wInput{{k: 'p', s: "only"}}
		return true
	}},
	{"no-inputs", func(r *common.Rng, c *wCase) bool { c.mods[pickUsed(r, c)].inputs = nil; return true }},
	{"unknown-store-mode", func(r *common.Rng, c *wCase) bool {
		for _, mi := range perm(r, len(c.mods)) {
			for k := range c.mods[mi].inputs {
				if c.mods[mi].inputs[k].k == 't' {
					c.mods[mi].inputs[k].mode = []int32{0, 3, -1, math.MaxInt32, math.MinInt32}[r.Intn(5)]
					return true
				}
			}
		}
		return false
	}},
	{"filter-module-later-init", func(r *common.Rng, c *wCase) bool {
		for _, mi := range perm(r, len(c.mods)) {
			m := &c.mods[mi]
			if m.filter != nil {
				if i := c.idxByName(m.filter.module); i >= 0 {
					c.mods[i].init = m.init + 1 + uint64(r.Intn(5))
					return true
				}
			}
		}
		return false
	}},
	{"filter-query-absent", func(r *common.Rng, c *wCase) bool {
		for _, mi := range perm(r, len(c.mods)) {
			if c.mods[mi].filter != nil {
				c.mods[mi].filter.q = 'n'
				return true
			}
		}
		return false
	}},
	{"filter-query-from-params-without-params", func(r *common.Rng, c *wCase) bool {
		for _, mi := range perm(r, len(c.mods)) {
			m := &c.mods[mi]
			if m.filter != nil && (len(m.inputs) == 0 || m.inputs[0].k != 'p') {
				m.filter.q = 'p'
				return true
			}
		}
		return false
	}},
	{"empty-output-module", func(r *common.Rng, c *wCase) bool { c.out = ""; return true }},
	{"unknown-output-module", func(r *common.Rng, c *wCase) bool { c.out = []string{"nope", "M0", "m"}[r.Intn(3)]; return true }},
	{"output-module-is-store", func(r *common.Rng, c *wCase) bool {
		j := c.idxOfKind(r, 's')
		if j < 0 {
			return false
		}
		c.out = c.mods[j].name
		return true
	}},
	{"output-module-is-index", func(r *common.Rng, c *wCase) bool {
		j := c.idxOfKind(r, 'i')
		if j < 0 {
			return false
		}
		c.out = c.mods[j].name
		return true
	}},
	{"start-equals-stop", func(r *common.Rng, c *wCase) bool {
		if c.start <= 0 {
			c.start = int64(c.cfg.fs) + 3
		}
		c.stop = uint64(c.start)
		return true
	}},
	{"negative-start", func(r *common.Rng, c *wCase) bool {
		c.start = -int64(r.Range(1, 600))
		if r.Chance(1, 4) {
			c.start = math.MinInt64 + int64(r.Intn(3))
		}
		return true
	}},
	{"stop-before-start", func(r *common.Rng, c *wCase) bool {
		if c.start < 2 {
			c.start = int64(c.cfg.fs) + 50
		}
		c.stop = uint64(r.Range(1, int(c.start)-1))
		return true
	}},
	{"start-below-first-streamable", func(r *common.Rng, c *wCase) bool {
		if c.cfg.fs < 2 {
			c.cfg.fs = 100
		}
		c.start = int64(r.Range(1, int(c.cfg.fs)-1))
		return true
	}},
	{"start-below-module-init", func(r *common.Rng, c *wCase) bool {
		i := c.idxByName(c.out)
		if i < 0 {
			return false
		}
		c.mods[i].init = uint64(c.start) + 1 + uint64(r.Intn(30))
		return true
	}},
	{"init-below-first-streamable", func(r *common.Rng, c *wCase) bool {
		c.cfg.fs = 100
		c.mods[pickUsed(r, c)].init = uint64(r.Range(1, 99))
		return true
	}},
	{"dependency-with-later-init", func(r *common.Rng, c *wCase) bool {
		// every map/store dependency of a module starts after it and it has no source: no input at its initial block
		for _, mi := range perm(r, len(c.mods)) {
			m := &c.mods[mi]
			var keep []wInput
			for _, in := range m.inputs {
				if in.k == 'm' || in.k == 't' {
					keep = append(keep, in)
				}
			}
			if len(keep) == 0 {
				continue
			}
			m.inputs = keep
			for _, in := range keep {
				if j := c.idxByName(in.s); j >= 0 {
					c.mods[j].init = m.init + 1 + uint64(r.Intn(9))
					if m.init == 0 {
						c.mods[j].init = c.cfg.fs + 1 + uint64(r.Intn(9))
					}
				}
			}
			return true
		}
		return false
	}},
	{"huge-numbers", func(r *common.Rng, c *wCase) bool {
		big := []uint64{math.MaxUint64, math.MaxUint64 - 1, 1 << 63, 1<<63 - 1, 1 << 62, math.MaxUint32, 1 << 32}
		switch r.Intn(7) {
		case 0:
			c.mods[pickUsed(r, c)].init = big[r.Intn(len(big))]
		case 1:
			c.stop = big[r.Intn(len(big))]
		case 2:
			c.start = []int64{math.MaxInt64, math.MaxInt64 - 1, math.MinInt64, 1 << 62, math.MaxUint32}[r.Intn(5)]
		case 3:
			c.cfg.fin = u64p(big[r.Intn(len(big))])
		case 4:
			c.cfg.head = u64p(big[r.Intn(len(big))])
			c.start = -int64(r.Range(1, 5))
		case 5:
			c.cfg.fs = big[r.Intn(len(big))]
		case 6:
			c.cfg.seg = big[r.Intn(len(big))]
		}
		if r.Bool() {
			c.stop = big[r.Intn(len(big))]
		}
		return true
	}},
	{"huge-numbers-everywhere", func(r *common.Rng, c *wCase) bool {
		big := []uint64{math.MaxUint64, math.MaxUint64 - 1, 1 << 63, 1<<63 - 1, 1<<63 + 1, 0, 1}
		for i := range c.mods {
			c.mods[i].init = big[r.Intn(len(big))]
		}
		c.stop = big[r.Intn(len(big))]
		c.start = []int64{math.MaxInt64, math.MinInt64, 0, 1, -1}[r.Intn(5)]
		c.cfg.fin = u64p(big[r.Intn(len(big))])
		c.cfg.head = u64p(big[r.Intn(len(big))])
		c.cfg.fs = big[r.Intn(len(big))]
		c.cfg.seg = []uint64{1, 2, 10, math.MaxUint64, 1 << 63}[r.Intn(5)]
		return true
	}},
	{"production-with-debug-snapshots", func(r *common.Rng, c *wCase) bool {
		c.prod = true
		c.dbg = []string{"m0"}
		if j := c.idxOfKind(r, 's'); j >= 0 {
			c.dbg = []string{c.mods[j].name}
		}
		return true
	}},
	{"debug-snapshot-unknown-store", func(r *common.Rng, c *wCase) bool {
		c.prod = false
		c.dbg = append(c.dbg, []string{"nope", "", c.out}[r.Intn(3)])
		return true
	}},
	{"debug-snapshots-valid", func(r *common.Rng, c *wCase) bool {
		c.prod = false
		c.dbg = nil
		for _, m := range c.mods {
			if m.kind == 's' {
				c.dbg = append(c.dbg, m.name)
			}
		}
		return len(c.dbg) > 0
	}},
	{"more-than-30-inputs", func(r *common.Rng, c *wCase) bool {
		m := &c.mods[pickUsed(r, c)]
		n := []int{30, 31, 45}[r.Intn(3)]
		for len(m.inputs) < n {
			m.inputs = append(m.inputs, wInput{k: 'r', s: blockT})
		}
		return true
	}},
	{"modules-absent", func(r *common.Rng, c *wCase) bool { c.noModules = true; c.mods = nil; c.bins = nil; return true }},
	{"no-modules-in-list", func(r *common.Rng, c *wCase) bool { c.mods = nil; return true }},
	{"params-value-is-a-module-name", func(r *common.Rng, c *wCase) bool {
		m := &c.mods[pickUsed(r, c)]
		tgt := c.mods[pick(r, c)].name
		if r.Chance(1, 3) {
			tgt = m.name
		}
		if len(m.inputs) > 0 && m.inputs[0].k == 'p' {
			m.inputs[0].s = tgt
		} else {
			m.inputs = append([]wInput{{k: 'p', s: tgt}}, m.inputs...)
		}
		return true
	}},
	{"source-type-is-a-module-name", func(r *common.Rng, c *wCase) bool {
		// the block type of the chain is itself a valid module name here
		tgt := c.mods[pick(r, c)].name
		c.cfg.bt = tgt
		for i := range c.mods {
			for k := range c.mods[i].inputs {
				if c.mods[i].inputs[k].k == 'r' && c.mods[i].inputs[k].s == blockT {
					c.mods[i].inputs[k].s = tgt
				}
			}
		}
		return true
	}},
	{"wrong-source-type", func(r *common.Rng, c *wCase) bool {
		m := &c.mods[pickUsed(r, c)]
		m.inputs = append(m.inputs, wInput{k: 'r', s: []string{"sf.other.Block", "", "sf.substreams.v1.clock"}[r.Intn(3)]})
		return true
	}},
	{"cursor-valid", func(r *common.Rng, c *wCase) bool {
		step := []int{1, 2, 16, 17}[r.Intn(4)]
		blk := uint64(r.Intn(300))
		lib := blk
		switch r.Intn(4) {
		case 0:
			lib = blk
		case 1:
			lib = blk + uint64(r.Range(1, 9))
		default:
			lib = uint64(r.Intn(int(blk) + 1))
		}
		if r.Chance(1, 12) {
			blk = math.MaxUint64
			lib = []uint64{math.MaxUint64, 5}[r.Intn(2)]
		}
		c.cur = fmt.Sprintf("c%d.%d.%d", step, blk, lib)
		if r.Chance(1, 3) {
			c.cfg.rc = fmt.Sprintf("j%d", blk)
		}
		return true
	}},
	{"cursor-unparsable", func(r *common.Rng, c *wCase) bool {
		g := []string{"abc", "!!!", "c1:1:5:5a:3:3a", opaque.EncodeString("c1:9:5:5a:3:3a"), opaque.EncodeString("c4:1:5:5a:3:3a"),
			opaque.EncodeString("c1:1:x:5a:3:3a"), opaque.EncodeString("c3:1:5:5a:3:3a"), opaque.EncodeString(""), "é", opaque.EncodeString("c1:1:-5:5a:3:3a")}
		c.cur = "b" + encStr(g[r.Intn(len(g))])
		return true
	}},
	{"segment-size-zero", func(r *common.Rng, c *wCase) bool { c.cfg.seg = 0; return true }},
	{"no-final-block", func(r *common.Rng, c *wCase) bool { c.cfg.fin = nil; return true }},
	{"stop-zero", func(r *common.Rng, c *wCase) bool { c.stop = 0; return true }},
}

func (r2 *wCase) rename(old, nw string) {
	for i := range r2.mods {
		if r2.mods[i].name == old {
			r2.mods[i].name = nw
		}
		for k := range r2.mods[i].inputs {
			if (r2.mods[i].inputs[k].k == 'm' || r2.mods[i].inputs[k].k == 't') && r2.mods[i].inputs[k].s == old {
				r2.mods[i].inputs[k].s = nw
			}
		}
		if r2.mods[i].filter != nil && r2.mods[i].filter.module == old {
			r2.mods[i].filter.module = nw
		}
	}
	if r2.out == old {
		r2.out = nw
	}
	for i := range r2.dbg {
		if r2.dbg[i] == old {
			r2.dbg[i] = nw
		}
	}
}

// Go-only shapes that the wire cannot carry as such: what arrives is what the encoder makes of them.
var pbMutations = []struct {
	name string
	f    func(r *common.Rng, req *pbsubstreamsrpc.Request) bool
}{
	{"go:kind-wrapper-with-nil-message", func(r *common.Rng, req *pbsubstreamsrpc.Request) bool {
		m := req.Modules.Modules[r.Intn(len(req.Modules.Modules))]
		switch r.Intn(3) {
		case 0:
			m.Kind = &pbsubstreams.Module_KindStore_{}
		case 1:
			m.Kind = &pbsubstreams.Module_KindMap_{}
		default:
			m.Kind = &pbsubstreams.Module_KindBlockIndex_{}
		}
		return true
	}},
	{"go:input-wrapper-with-nil-message", func(r *common.Rng, req *pbsubstreamsrpc.Request) bool {
		m := req.Modules.Modules[r.Intn(len(req.Modules.Modules))]
		var in pbsubstreams.Module_Input
		switch r.Intn(4) {
		case 0:
			in.Input = &pbsubstreams.Module_Input_Source_{}
		case 1:
			in.Input = &pbsubstreams.Module_Input_Map_{}
		case 2:
			in.Input = &pbsubstreams.Module_Input_Store_{}
		default:
			in.Input = &pbsubstreams.Module_Input_Params_{}
		}
		m.Inputs = append(m.Inputs, &in)
		return true
	}},
	{"go:nil-input-entry", func(r *common.Rng, req *pbsubstreamsrpc.Request) bool {
		m := req.Modules.Modules[r.Intn(len(req.Modules.Modules))]
		m.Inputs = append(m.Inputs, nil)
		return true
	}},
	{"go:nil-module-entry", func(r *common.Rng, req *pbsubstreamsrpc.Request) bool {
		req.Modules.Modules = append(req.Modules.Modules, nil)
		return true
	}},
	{"go:nil-binary-entry", func(r *common.Rng, req *pbsubstreamsrpc.Request) bool {
		req.Modules.Binaries = append(req.Modules.Binaries, nil)
		return true
	}},
	{"go:empty-block-filter", func(r *common.Rng, req *pbsubstreamsrpc.Request) bool {
		req.Modules.Modules[r.Intn(len(req.Modules.Modules))].BlockFilter = &pbsubstreams.Module_BlockFilter{}
		return true
	}},
	{"go:query-from-params-nil-message", func(r *common.Rng, req *pbsubstreamsrpc.Request) bool {
		for _, m := range req.Modules.Modules {
			if m.BlockFilter != nil {
				m.BlockFilter.Query = &pbsubstreams.Module_BlockFilter_QueryFromParams{}
				return true
			}
		}
		return false
	}},
	{"go:invalid-utf8-name", func(r *common.Rng, req *pbsubstreamsrpc.Request) bool {
		req.Modules.Modules[r.Intn(len(req.Modules.Modules))].Name = "a\xff"
		return true
	}},
	{"go:empty-modules-message", func(r *common.Rng, req *pbsubstreamsrpc.Request) bool {
		req.Modules = &pbsubstreams.Modules{}
		return true
	}},
}

func perm(r *common.Rng, n int) []int {
	p := make([]int, n)
	for i := range p {
		p[i] = i
	}
	for i := n - 1; i > 0; i-- {
		j := r.Intn(i + 1)
		p[i], p[j] = p[j], p[i]
	}
	return p
}

func main() {
	o := common.ParseFlags()
	out = common.NewOut(o.Out)
	out.Rule = "structure-aware wire-level requests: a fixed corpus of minimal witnesses; valid DAG skeletons (1..12 modules, sometimes up to 100) of maps/stores/block indexes with filters, params, sources, init blocks; 1..3 seeded mutations out of the listed classes (gen:* counters) and each class alone; Go-only shapes pushed through the encoder; an exhaustive family of all 2-module requests over a small alphabet; sizes around the 100-module / 30-input limits; tier2 (T2) requests derived from a third of them with stage numbers in and out of range; every request goes through proto.Marshal/Unmarshal and every case line is checked to be a wire-level fixpoint; non-trivial = at least 2 modules; distinct by case line"
	defer out.Finish()

	t2Dir = filepath.Join(o.Out, "t2")
	if lines := o.ReplayLines(); lines != nil {
		for _, l := range lines {
			if strings.HasPrefix(l, "T2 ") {
				runT2Line(l, []string{"replay"})
			} else {
				runLine(l, []string{"replay"})
			}
		}
		return
	}
	generate(o)
	probeMetering()
	if len(maxAllocLine) > 300 {
		maxAllocLine = maxAllocLine[:300] + "..."
	}
	out.Notes = append(out.Notes, fmt.Sprintf("largest allocation measured for one request (validation to plan, sampled): %d bytes :: %s", maxAlloc, maxAllocLine))
}

// vh_c01: output is independent of the execution strategy. For generated module graphs and requests, the REAL
// tier1 service (+ real in-process tier2 jobs, real hashes, real cache files) is run linearly (development mode,
// empty cache), in parallel (production mode: any worker count, seeded job completion order), again on the warm
// cache, in development mode on the warm cache, and after earlier requests for other modules/ranges populated the
// cache. Every run's stream of non-empty outputs must equal the Lean linear specification (correspondence) and
// the linear run (oracle on the real code).
package main

import (
	"fmt"
	"os"
	"path/filepath"
	"sort"
	"strings"
	"sync"
	"time"

	"github.com/streamingfast/substreams/sqe"

	"verifharness/common"
	"verifharness/sys"
)

type runRes struct {
	line, ans string
	nt        bool
	fails     [][3]string
	counts    []string
}

// normTag: a set_sum store's raw values carry a "set:"/"sum:" tag that depends on whether the value was last
// written by a merge or by a block (known finding C01/set_sum-tag-visible-in-deltas); the digest of a deltas
// input shows raw values, so the canonical answer normalises the tag (hex "7365743a" -> "73756d3a").
func normTag(p []byte) []byte { return sys.NormTag(p) }

func nonEmptyRaw(r *sys.Result, norm bool) string {
	var p []string
	for _, m := range r.Msgs {
		if m.Kind == "data" && len(m.Payload) > 0 {
			pl := m.Payload
			if norm {
				pl = normTag(pl)
			}
			p = append(p, fmt.Sprintf("%d=%x", m.Num, pl))
		}
	}
	s := strings.Join(p, " ")
	if r.Err != nil {
		s += " ERR:" + r.ErrClass()
	}
	return s
}
func nonEmpty(r *sys.Result) string { return nonEmptyRaw(r, true) }

// streamOK: C01's structural part on the real messages: blocks in range, strictly increasing, ids of the canonical chain
func streamOK(r *sys.Result, start, stop uint64) string {
	var last int64 = -1
	for _, m := range r.Msgs {
		if m.Kind != "data" {
			continue
		}
		if m.Num < start || (stop != 0 && m.Num >= stop) {
			return fmt.Sprintf("block %d outside [%d,%d)", m.Num, start, stop)
		}
		if int64(m.Num) <= last {
			return fmt.Sprintf("block %d after %d", m.Num, last)
		}
		if m.ID != sys.CanonID(m.Num) {
			return fmt.Sprintf("block %d has id %s", m.Num, m.ID)
		}
		last = int64(m.Num)
	}
	return ""
}

// scenarioX runs one scenario and returns, with its results, the encoding of the world and request it used: failures
// are reported as "SCEN seed idx tier <encoding>", a line that keeps its meaning when the generators change.
func scenarioX(s common.Scen, root string) ([]runRes, string) {
	var enc string
	rs := scenario(s.Seed, s.Idx, s.Tier, root, s.Fixed, &enc)
	return rs, enc
}

func scenario(seed uint64, idx int, tier string, root string, fixed string, enc *string) []runRes {
	rng := common.NewRng(seed*7919 + uint64(idx))
	sc := sys.GenScenarioOr(rng, fixed)
	// everything after the world and the request is drawn from a stream of its own, so that a corpus line (which fixes
	// the world and the request) keeps its subsets, schedules and faults when the world generator changes
	rng = common.NewRng(seed*0x9e3779b97f4a7c15 + uint64(idx)*7919 + 12345)
	if enc != nil {
		*enc = sc.Encode()
	}
	w, output, start, stop, head, final, seg := sc.W, sc.Output, sc.Start, sc.Stop, sc.Head, sc.Final, sc.Seg
	maps := w.Maps()
	_, _ = final, seg
	wl := w.Encode()
	base := fmt.Sprintf("LIN %d %s %s %d %d", sqe.MaxRecursionDeepness, wl, output, start, stop)
	dir := filepath.Join(root, fmt.Sprintf("sc%d", idx))
	defer os.RemoveAll(dir)
	var out []runRes
	var ref, refRaw string
	nt := false
	for _, m := range w.Mods {
		if m.Kind == "store" {
			nt = true
		}
	}
	run := func(tag string, d string, req sys.Req, opts sys.Opts) *sys.Result {
		if opts.Timeout == 0 {
			opts.Timeout = 12 * time.Second
		}
		r := w.Run(filepath.Join(dir, d), req, opts)
		ans := nonEmpty(r)
		rr := runRes{line: base + " | " + tag, ans: ans, nt: nt, counts: []string{"strategy:" + strings.Fields(tag)[0], fmt.Sprintf("jobs:%d", min(len(r.Jobs), 9)), "err:" + r.ErrClass()}}
		raw := nonEmptyRaw(r, false)
		if tag == "linear-dev-empty" {
			ref, refRaw = ans, raw
		} else if strings.Contains(ans, "ERR:timeout") {
			rr.fails = append(rr.fails, [3]string{"C01/request-never-completes", fmt.Sprintf("%s: the request does not finish (jobs started: %v): %.200s", tag, r.Jobs, r.Err), rr.line})
		} else if ans != ref {
			rr.fails = append(rr.fails, [3]string{"C01/strategy-changes-output/" + strings.Fields(tag)[0], fmt.Sprintf("linear (dev, empty cache): %.300s || %s (seg %d, final %d, jobs %v, err %.300v): %.300s", ref, tag, req.Seg, req.Final, r.Jobs, r.Err, ans), rr.line})
		}
		if ans == ref && raw != refRaw {
			rr.fails = append(rr.fails, [3]string{"C01/set_sum-tag-visible-in-deltas", fmt.Sprintf("%s: a module reading the deltas of a set_sum store sees set:/sum: tags that differ from the linear run", tag), rr.line})
		}
		if msg := streamOK(r, start, stop); msg != "" {
			rr.fails = append(rr.fails, [3]string{"C01/stream-shape", msg, rr.line})
		}
		out = append(out, rr)
		return r
	}
	mk := sc.Req
	run("linear-dev-empty", "A", mk(false, 1), sys.Opts{})
	workers := rng.Range(1, 3)
	ramp := tier == "thorough" && workers > 1 && rng.Chance(1, 3)
	run(fmt.Sprintf("parallel-prod-empty workers=%d ramp=%v", workers, ramp), "B", mk(true, workers), sys.Opts{Sched: rng.Fork(), WaitRamp: ramp})
	run("parallel-prod-warm", "B", mk(true, rng.Range(1, 3)), sys.Opts{Sched: rng.Fork()})
	run("linear-dev-warm", "B", mk(false, 1), sys.Opts{})
	// cache populated by earlier requests for other modules / other ranges (dir C), then the request itself
	for k := 0; k < rng.Range(1, 3); k++ {
		o2 := maps[rng.Intn(len(maps))]
		m2 := w.Mod(o2)
		s2 := m2.Init + uint64(rng.Range(0, 12))
		if s2 == 0 {
			s2 = 1
		}
		e2 := s2 + uint64(rng.Range(1, 25))
		r2 := sys.Req{Prod: rng.Chance(3, 4), Start: int64(s2), Stop: e2, Final: head + 30, Head: head + 30, Seg: seg, Workers: rng.Range(1, 2), Output: o2}
		w.Run(filepath.Join(dir, "C"), r2, sys.Opts{Sched: rng.Fork()})
	}
	run("parallel-prod-after-other-requests", "C", mk(true, rng.Range(1, 3)), sys.Opts{Sched: rng.Fork()})
	run("linear-dev-after-other-requests", "C", mk(false, 1), sys.Opts{})
	// cache populated by earlier production requests for the output's map ancestors over the same range (dir E): a
	// tier-2 job then finds their cached outputs (present-but-empty ones, skipped ones) and may do without the block source
	if anc := w.MapAncestors(sc.Output); len(anc) > 0 {
		for _, a := range anc {
			if !rng.Chance(3, 4) {
				continue
			}
			s2 := uint64(start)
			if i := w.Mod(a).Init; s2 < i {
				s2 = i
			}
			if s2 == 0 {
				s2 = 1
			}
			w.Run(filepath.Join(dir, "E"), sys.Req{Prod: true, Start: int64(s2), Stop: stop + uint64(rng.Range(0, 3)), Final: head + 30, Head: head + 30, Seg: seg, Workers: rng.Range(1, 2), Output: a}, sys.Opts{Sched: rng.Fork()})
		}
		run("parallel-prod-after-ancestor-requests", "E", mk(true, rng.Range(1, 3)), sys.Opts{Sched: rng.Fork()})
	}
	// dev mode with its own store back-fill on an empty cache but another worker count / order
	run("linear-dev-empty-2", "D", mk(false, rng.Range(1, 3)), sys.Opts{Sched: rng.Fork()})
	return out
}

func main() {
	o := common.ParseFlags()
	out := common.NewOut(o.Out)
	defer out.Finish()
	out.Rule = "scenarios: seeded module graphs (2-7 modules: maps over the block source emitting on b%m==r and skipping/returning empty otherwise, clock-only, params-only, stores of 10 (policy,type) kinds with growing/shrinking/deleted keys fed by maps or clock, maps reading stores in get and deltas mode, block indexes + filtered modules, differing initial blocks) x (output module, start, stop, finality point inside/below/above the range, segment size 2..12, workers 1..3, seeded job completion order) x 8 strategies (linear dev on empty cache; production parallel on empty cache; production on the warm cache; dev on the warm cache; production and dev after 1-3 earlier requests for other modules/ranges; dev on empty cache again); non-trivial = the graph has a store; distinct by (scenario, strategy)"
	if lines := o.ReplayLines(); lines != nil {
		// a replay line names a scenario: "SCEN <seed> <idx> <tier>"
		for _, l := range lines {
			if psc, ok := common.ParseScen("SCEN", l); ok {
				for _, r := range scenario(psc.Seed, psc.Idx, psc.Tier, filepath.Join(o.Out, "sys"), psc.Fixed, nil) {
					out.Case(r.line, r.ans, r.nt)
					for _, fl := range r.fails {
						out.Fail(fl[0], fl[1], l)
					}
				}
			}
		}
		return
	}
	n := 120
	if o.Thorough() {
		n = 1200
	}
	// past failures first (checks/../corpus/<id>.txt: witnesses of repaired defects and of seeded changes), then n generated scenarios
	scens := o.Scens("SCEN", n)
	n = len(scens)
	results := make([][]runRes, n)
	encs := make([]string, n)
	var wg sync.WaitGroup
	sem := make(chan struct{}, 12)
	for i := 0; i < n; i++ {
		wg.Add(1)
		sem <- struct{}{}
		go func(i int) {
			defer wg.Done()
			defer func() { <-sem }()
			results[i], encs[i] = scenarioX(scens[i], filepath.Join(filepath.Join(o.Out, "sys"), fmt.Sprintf("k%d", i)))
		}(i)
	}
	wg.Wait()
	for i, rs := range results {
		for _, r := range rs {
			out.Case(r.line, r.ans, r.nt)
			for _, c := range r.counts {
				out.Count(c)
			}
			for _, fl := range r.fails {
				out.Fail(fl[0], fl[1], common.Scen{Seed: scens[i].Seed, Idx: scens[i].Idx, Tier: scens[i].Tier, Fixed: encs[i]}.String())
			}
		}
	}
	_ = sort.Strings
}

// vh_c13: correspondence cases + property oracle for C13 (segments tile every block range exactly).
// Real code driven: block.Segmenter (all methods), block.Range.Split, block.Ranges.Merged/MergedBuckets.
package main

import (
	"fmt"
	"strings"

	"github.com/streamingfast/substreams/block"

	"verifharness/common"
)

func showRange(r *block.Range) string {
	if r == nil {
		return "nil"
	}
	return fmt.Sprintf("[%d,%d)", r.StartBlock, r.ExclusiveEndBlock)
}
func showRanges(rs []*block.Range) string {
	var p []string
	for _, r := range rs {
		p = append(p, showRange(r))
	}
	return strings.Join(p, ";")
}
func encRanges(rs block.Ranges) string {
	if len(rs) == 0 {
		return "-"
	}
	var p []string
	for _, r := range rs {
		p = append(p, fmt.Sprintf("%d-%d", r.StartBlock, r.ExclusiveEndBlock))
	}
	return strings.Join(p, ",")
}
func parseRanges(s string) block.Ranges {
	if s == "-" {
		return nil
	}
	var out block.Ranges
	for _, p := range strings.Split(s, ",") {
		ab := strings.Split(p, "-")
		out = append(out, block.NewRange(common.Atou(ab[0]), common.Atou(ab[1])))
	}
	return out
}

var out *common.Out

// ---- implementation answers (canonical lines; formats mirror lean/Driver/C13.lean)

func implSeg(k, i, e uint64, idx int) string {
	s := block.NewSegmenter(k, i, e)
	eoi, _ := common.Recover(func() string { return fmt.Sprint(s.EndsOnInterval(idx)) })
	return fmt.Sprintf("first=%d last=%d count=%d range=%s eoi=%s", s.FirstIndex(), s.LastIndex(), s.Count(), showRange(s.Range(idx)), eoi)
}
// the walk every consumer of a Segmenter does (stage.NewStages, NextJob, the squasher): Range(idx) for
// idx = FirstIndex() .. LastIndex(); answer = the ranges and the blocks they list, in order
func implSegs(k, i, e uint64) string {
	s := block.NewSegmenter(k, i, e)
	var rs []*block.Range
	var blocks []string
	for idx := s.FirstIndex(); idx <= s.LastIndex(); idx++ {
		if r := s.Range(idx); r != nil {
			rs = append(rs, r)
			for b := r.StartBlock; b < r.ExclusiveEndBlock; b++ {
				blocks = append(blocks, fmt.Sprint(b))
			}
		}
	}
	return showRanges(rs) + " blocks=" + strings.Join(blocks, ",")
}
func implIdx(k, b uint64) string {
	s := block.NewSegmenter(k, 0, 0)
	return fmt.Sprintf("start=%d end=%d", s.IndexForStartBlock(b), s.IndexForEndBlock(b))
}

func runLine(line string) string {
	w := strings.Fields(line)
	switch w[0] {
	case "SEG":
		return implSeg(common.Atou(w[1]), common.Atou(w[2]), common.Atou(w[3]), common.Atoi(w[4]))
	case "IDX":
		return implIdx(common.Atou(w[1]), common.Atou(w[2]))
	case "SEGS":
		return implSegs(common.Atou(w[1]), common.Atou(w[2]), common.Atou(w[3]))
	case "SPLIT":
		return showRanges(block.NewRange(common.Atou(w[1]), common.Atou(w[2])).Split(common.Atou(w[3])))
	case "MERGED":
		return showRanges(parseRanges(w[1]).Merged())
	case "BUCKETS":
		return showRanges(parseRanges(w[2]).MergedBuckets(common.Atou(w[1])))
	}
	return "bad-op"
}

// ---- oracles: the property's own predicate on the real code

// tiling oracle for one (k, init, end) with init < end
func oracleSegmenter(k, i, e uint64) {
	s := block.NewSegmenter(k, i, e)
	first, last := s.FirstIndex(), s.LastIndex()
	caseLine := fmt.Sprintf("SEG %d %d %d %d", k, i, e, first)
	fail := func(class, d string) { out.Fail("C13/"+class, d, caseLine) }
	if s.Range(first-1) != nil || s.Range(last+1) != nil || s.Range(-1) != nil {
		fail("segment-outside-range", "an index outside [first,last] yields a segment")
	}
	if s.Count() != last-first+1 || s.Count() < 1 {
		fail("count", fmt.Sprintf("Count()=%d first=%d last=%d", s.Count(), first, last))
	}
	prevEnd := i
	for idx := first; idx <= last; idx++ {
		r := s.Range(idx)
		if r == nil {
			fail("missing-segment", fmt.Sprintf("no segment at index %d", idx))
			return
		}
		if r.StartBlock != prevEnd {
			fail("gap-or-overlap", fmt.Sprintf("segment %d starts at %d, previous ended at %d", idx, r.StartBlock, prevEnd))
		}
		if r.ExclusiveEndBlock <= r.StartBlock {
			fail("empty-segment", fmt.Sprintf("segment %d = %s", idx, showRange(r)))
		}
		if idx > first && r.StartBlock%k != 0 {
			fail("unaligned-start", fmt.Sprintf("segment %d = %s", idx, showRange(r)))
		}
		if idx < last && r.ExclusiveEndBlock%k != 0 {
			fail("unaligned-end", fmt.Sprintf("segment %d = %s", idx, showRange(r)))
		}
		// the range a tier2 job recomputes from (segment number, size)
		lo, hi := uint64(idx)*k, uint64(idx+1)*k
		if lo < i {
			lo = i
		}
		if hi > e {
			hi = e
		}
		if r.StartBlock != lo || r.ExclusiveEndBlock != hi {
			fail("closed-form", fmt.Sprintf("segment %d = %s expected [%d,%d)", idx, showRange(r), lo, hi))
		}
		eoi, p := common.Recover(func() string { return fmt.Sprint(s.EndsOnInterval(idx)) })
		if p || eoi != fmt.Sprint(r.ExclusiveEndBlock%k == 0) {
			fail("ends-on-interval", fmt.Sprintf("segment %d = %s EndsOnInterval=%s", idx, showRange(r), eoi))
		}
		for b := r.StartBlock; b < r.ExclusiveEndBlock && b < r.StartBlock+2*k+2; b++ {
			if s.IndexForStartBlock(b) != idx {
				fail("index-for-start", fmt.Sprintf("block %d in segment %d, IndexForStartBlock=%d", b, idx, s.IndexForStartBlock(b)))
			}
			if s.IndexForEndBlock(b+1) != idx {
				fail("index-for-end", fmt.Sprintf("end block %d: IndexForEndBlock=%d want %d", b+1, s.IndexForEndBlock(b+1), idx))
			}
		}
		prevEnd = r.ExclusiveEndBlock
	}
	if prevEnd != e {
		fail("union", fmt.Sprintf("segments end at %d, end block %d", prevEnd, e))
	}
}

func covered(rs []*block.Range, upTo uint64) []bool {
	c := make([]bool, upTo+1)
	for _, r := range rs {
		for b := r.StartBlock; b < r.ExclusiveEndBlock && b <= upTo; b++ {
			c[b] = true
		}
	}
	return c
}
func sameCover(a, b []*block.Range, upTo uint64) bool {
	ca, cb := covered(a, upTo), covered(b, upTo)
	for i := range ca {
		if ca[i] != cb[i] {
			return false
		}
	}
	return true
}

func oracleSplit(a, b, c uint64, line string) {
	r := block.NewRange(a, b)
	parts := r.Split(c)
	prev := a
	for n, p := range parts {
		if p.StartBlock != prev || p.ExclusiveEndBlock <= p.StartBlock {
			out.Fail("C13/split-contiguity", fmt.Sprintf("chunk %d = %s after %d", n, showRange(p), prev), line)
		}
		if p.ExclusiveEndBlock-p.StartBlock > c {
			out.Fail("C13/split-size", fmt.Sprintf("chunk %s longer than %d", showRange(p), c), line)
		}
		if n < len(parts)-1 && p.ExclusiveEndBlock%c != 0 {
			out.Fail("C13/split-cut", fmt.Sprintf("interior cut %d not a multiple of %d", p.ExclusiveEndBlock, c), line)
		}
		prev = p.ExclusiveEndBlock
	}
	if prev != b {
		out.Fail("C13/split-cover", fmt.Sprintf("chunks end at %d, range ends at %d", prev, b), line)
	}
}

func oracleMerged(rs block.Ranges, m uint64, line string) {
	var max uint64
	for _, r := range rs {
		if r.ExclusiveEndBlock > max {
			max = r.ExclusiveEndBlock
		}
	}
	var got block.Ranges
	if m == 0 {
		got = rs.Merged()
	} else {
		got = rs.MergedBuckets(m)
	}
	if !sameCover(rs, got, max+1) {
		out.Fail("C13/merged-cover", fmt.Sprintf("%s merged to %s", encRanges(rs), showRanges(got)), line)
	}
}

// ---- generators

func genRanges(r *common.Rng, maxN, span int) block.Ranges {
	n := r.Range(0, maxN)
	var out block.Ranges
	cur := uint64(r.Intn(span / 4))
	for i := 0; i < n; i++ {
		if !r.Chance(3, 5) { // adjacency (gap 0) is the interesting case
			cur += uint64(r.Range(1, 4))
		}
		l := uint64(r.Range(1, 6))
		out = append(out, block.NewRange(cur, cur+l))
		cur += l
	}
	return out
}

func emit(line string, nontrivial bool) {
	ans, _ := common.Recover(func() string { return runLine(line) })
	out.Case(line, ans, nontrivial)
	out.Count(strings.Fields(line)[0])
}

func main() {
	o := common.ParseFlags()
	out = common.NewOut(o.Out)
	out.Rule = "SEG: exhaustive (interval 1..16, init 0..64, end init+1..96, every index first-2..last+2) plus degenerate end<=init; SEGS (the whole walk first..last and the blocks it lists, the definitions of the C13∘C02 / C13∘C01 composition theorems): every 7th (init,end) of that grid and all ranges of <=3 blocks; SPLIT exhaustive (start 0..40, len 1..40, chunk 1..12); MERGED/BUCKETS: exhaustive small point sets + seeded random adjacent/non-adjacent lists; non-trivial = the queried index has a segment / the split has >1 chunk / the list has an adjacent pair; distinct by case line"
	defer out.Finish()

	if lines := o.ReplayLines(); lines != nil {
		for _, l := range lines {
			emit(l, true)
			w := strings.Fields(l)
			switch w[0] {
			case "SEG":
				if common.Atou(w[2]) < common.Atou(w[3]) {
					oracleSegmenter(common.Atou(w[1]), common.Atou(w[2]), common.Atou(w[3]))
				}
			case "SPLIT":
				if common.Atou(w[1]) < common.Atou(w[2]) {
					oracleSplit(common.Atou(w[1]), common.Atou(w[2]), common.Atou(w[3]), l)
				}
			case "MERGED":
				oracleMerged(parseRanges(w[1]), 0, l)
			case "BUCKETS":
				oracleMerged(parseRanges(w[2]), common.Atou(w[1]), l)
			}
		}
		return
	}

	rng := common.NewRng(o.Seed)
	maxK, maxInit, maxEnd := uint64(16), uint64(64), uint64(96)
	for k := uint64(1); k <= maxK; k++ {
		for i := uint64(0); i <= maxInit; i++ {
			for e := i + 1; e <= maxEnd; e++ {
				oracleSegmenter(k, i, e)
				s := block.NewSegmenter(k, i, e)
				if (i+e)%7 == 0 || e-i <= 3 {
					emit(fmt.Sprintf("SEGS %d %d %d", k, i, e), s.LastIndex() > s.FirstIndex())
				}
				lo := s.FirstIndex() - 2
				if lo < 0 {
					lo = 0
				}
				for idx := lo; idx <= s.LastIndex()+2; idx++ {
					emit(fmt.Sprintf("SEG %d %d %d %d", k, i, e, idx), idx >= s.FirstIndex() && idx <= s.LastIndex())
				}
			}
			// degenerate (excluded by the theorems' guard, kept in the correspondence): 1 <= end <= init
			for e := uint64(1); e <= i && e <= 6; e++ {
				for idx := 0; idx <= int(i/k)+1; idx++ {
					emit(fmt.Sprintf("SEG %d %d %d %d", k, i, e, idx), false)
					out.Count("SEG-degenerate")
				}
			}
		}
		for b := uint64(1); b <= 100; b++ {
			emit(fmt.Sprintf("IDX %d %d", k, b), true)
		}
	}
	for a := uint64(0); a <= 40; a++ {
		for l := uint64(1); l <= 40; l++ {
			for c := uint64(1); c <= 12; c++ {
				line := fmt.Sprintf("SPLIT %d %d %d", a, a+l, c)
				emit(line, l > c)
				oracleSplit(a, a+l, c, line)
			}
		}
	}
	// exhaustive small lists: ranges over points 0..9, up to 4 ranges, gaps 0..2, lengths 1..3
	var rec func(cur uint64, acc block.Ranges)
	rec = func(cur uint64, acc block.Ranges) {
		line := "MERGED " + encRanges(acc)
		adj := false
		for i := 0; i+1 < len(acc); i++ {
			if acc[i].ExclusiveEndBlock == acc[i+1].StartBlock {
				adj = true
			}
		}
		emit(line, adj)
		oracleMerged(acc, 0, line)
		for m := uint64(1); m <= 7; m += 2 {
			bl := fmt.Sprintf("BUCKETS %d %s", m, encRanges(acc))
			emit(bl, adj)
			oracleMerged(acc, m, bl)
		}
		if len(acc) == 4 {
			return
		}
		for gap := uint64(0); gap <= 2; gap++ {
			for l := uint64(1); l <= 3; l++ {
				next := append(append(block.Ranges{}, acc...), block.NewRange(cur+gap, cur+gap+l))
				rec(cur+gap+l, next)
			}
		}
	}
	rec(0, nil)
	nRand := 20000
	if o.Thorough() {
		nRand = 400000
	}
	for n := 0; n < nRand; n++ {
		rs := genRanges(rng, 7, 64)
		line := "MERGED " + encRanges(rs)
		emit(line, len(rs) > 1)
		oracleMerged(rs, 0, line)
		m := uint64(rng.Range(1, 20))
		bl := fmt.Sprintf("BUCKETS %d %s", m, encRanges(rs))
		emit(bl, len(rs) > 1)
		oracleMerged(rs, m, bl)
	}
	// large magnitudes (seeded): near 2^32 and 2^62
	nBig := 20000
	if o.Thorough() {
		nBig = 500000
	}
	bases := []uint64{1 << 32, 1 << 62, 1 << 20, 999_999_990}
	for n := 0; n < nBig; n++ {
		base := bases[rng.Intn(len(bases))]
		k := uint64(rng.Range(1, 2000))
		if rng.Chance(1, 4) {
			k = uint64(1) << uint(rng.Range(0, 30))
		}
		i := base - uint64(rng.Intn(3000))
		e := i + 1 + uint64(rng.Intn(20000))
		s := block.NewSegmenter(k, i, e)
		idx := s.FirstIndex() + rng.Range(-1, 3)
		if rng.Bool() {
			idx = s.LastIndex() + rng.Range(-2, 1)
		}
		if idx < 0 {
			idx = 0
		}
		emit(fmt.Sprintf("SEG %d %d %d %d", k, i, e, idx), idx >= s.FirstIndex() && idx <= s.LastIndex())
		out.Count("SEG-big")
		if (e-i)/k < 64 {
			oracleSegmenter(k, i, e)
		}
		c := uint64(rng.Range(1, 5000))
		line := fmt.Sprintf("SPLIT %d %d %d", i, e, c)
		if (e-i)/c < 5000 {
			emit(line, e-i > c)
			oracleSplit(i, e, c, line)
		}
	}
}

// vh_c07: results do not depend on which cache files exist. A complete production run (and single extra requests)
// leaves a set F of cache files (full store snapshots, partial stores, cached outputs, block indexes); the request is
// then run on top of every subset of F (all 2^n for small n, seeded samples beyond), in production and in development
// mode: it must complete with the outputs of the empty-cache run (= the Lean linear specification), and every file
// it leaves behind must decode to the same content as the clean run's file of that name.
package main

import (
	"fmt"
	"os"
	"path/filepath"
	"strings"
	"sync"
	"time"

	"github.com/streamingfast/substreams/sqe"

	"verifharness/common"
	"verifharness/sys"
)

type runRes struct {
	line, ans string
	nt        bool
	fails     [][2]string
	counts    []string
}

func normTag(p []byte) []byte { return sys.NormTag(p) }

func nonEmpty(r *sys.Result) string {
	var p []string
	for _, m := range r.Msgs {
		if m.Kind == "data" && len(m.Payload) > 0 {
			p = append(p, fmt.Sprintf("%d=%x", m.Num, normTag(m.Payload)))
		}
	}
	s := strings.Join(p, " ")
	if r.Err != nil {
		s += " ERR:" + r.ErrClass()
	}
	return s
}

// scenarioX runs one scenario and returns, with its results, the encoding of the world and request it used: failures
// are reported as "SCEN seed idx tier <encoding>", a line that keeps its meaning when the generators change.
func scenarioX(s common.Scen, root string) ([]runRes, string) {
	var enc string
	rs := scenario(s.Seed, s.Idx, s.Tier, root, s.Fixed, &enc)
	return rs, enc
}

func scenario(seed uint64, idx int, tier string, root string, fixed string, enc *string) []runRes {
	rng := common.NewRng(seed*104729 + uint64(idx))
	sc := sys.GenScenarioOr(rng, fixed)
	// everything after the world and the request is drawn from a stream of its own, so that a corpus line (which fixes
	// the world and the request) keeps its subsets, schedules and faults when the world generator changes
	rng = common.NewRng(seed*0x9e3779b97f4a7c15 + uint64(idx)*7919 + 12345)
	if enc != nil {
		*enc = sc.Encode()
	}
	w := sc.W
	base := fmt.Sprintf("LIN %d %s %s %d %d", sqe.MaxRecursionDeepness, w.Encode(), sc.Output, sc.Start, sc.Stop)
	dir := filepath.Join(root, fmt.Sprintf("sc%d", idx))
	defer os.RemoveAll(dir)
	var out []runRes
	to := sys.Opts{Timeout: 12 * time.Second}
	// reference: empty cache, development mode
	ref := nonEmpty(w.Run(filepath.Join(dir, "ref"), sc.Req(false, 1), to))
	// clean production run -> F; plus the files of a few other requests (other outputs / ranges) in the same cache
	clean := filepath.Join(dir, "clean")
	r0 := w.Run(clean, sc.Req(true, rng.Range(1, 3)), sys.Opts{Sched: rng.Fork(), Timeout: 12 * time.Second})
	if r0.Err != nil && r0.ErrClass() == "timeout" {
		return []runRes{{line: base + " | clean-run", ans: nonEmpty(r0), nt: true, fails: [][2]string{{"C07/request-never-completes", fmt.Sprintf("clean production run does not finish (jobs %v)", r0.Jobs)}}, counts: []string{"clean-run-hangs"}}}
	}
	maps := w.Maps()
	for k := 0; k < rng.Range(0, 2); k++ {
		o2 := maps[rng.Intn(len(maps))]
		s2 := w.Mod(o2).Init + uint64(rng.Range(0, 10))
		if s2 == 0 {
			s2 = 1
		}
		w.Run(clean, sys.Req{Prod: true, Start: int64(s2), Stop: s2 + uint64(rng.Range(1, 25)), Final: sc.Head + 30, Head: sc.Head + 30, Seg: sc.Seg, Workers: 1, Output: o2}, to)
	}
	// … and, half of the time, earlier requests for the output's map ancestors over (about) the same range, so that
	// their cached outputs — empty ones, skipped ones, filtered ones — are among the files a later job may find
	if rng.Bool() {
		for _, a := range w.MapAncestors(sc.Output) {
			if !rng.Chance(2, 3) {
				continue
			}
			s2 := sc.Start
			if rng.Chance(1, 3) && s2 > 3 {
				s2 -= uint64(rng.Range(1, 3))
			}
			if i := w.Mod(a).Init; s2 < i {
				s2 = i
			}
			if s2 == 0 {
				s2 = 1
			}
			w.Run(clean, sys.Req{Prod: true, Start: int64(s2), Stop: sc.Stop + uint64(rng.Range(0, 3)), Final: sc.Head + 30, Head: sc.Head + 30, Seg: sc.Seg, Workers: 1, Output: a}, to)
		}
	}
	time.Sleep(30 * time.Millisecond) // merged partial files are deleted asynchronously
	F := sys.CacheFiles(clean)
	cleanContent := map[string]string{}
	for _, f := range F {
		cleanContent[f] = sys.DecodeFile(clean, f)
	}
	n := len(F)
	var subsets []uint64
	limit := 24
	if tier == "thorough" {
		limit = 400
	}
	if n <= 20 && (1<<uint(n)) <= limit {
		for m := uint64(0); m < 1<<uint(n); m++ {
			subsets = append(subsets, m)
		}
	} else {
		subsets = append(subsets, 0, ^uint64(0))
		for k := 2; k < limit; k++ {
			m := rng.U64()
			switch rng.Intn(4) {
			case 0:
				m &= rng.U64() // sparse
			case 1:
				m |= rng.U64() // dense: a few files missing (crash between two writes)
			}
			subsets = append(subsets, m)
		}
	}
	// structured evictions: everything except one module's outputs / one module's snapshots (n <= 64 files), and those
	// minus the output module's own files — the patterns a cache eviction by directory or by age produces
	if n <= 64 {
		groups := map[string]uint64{}
		var order []string
		for i, f := range F {
			g := filepath.Dir(f)
			if _, ok := groups[g]; !ok {
				order = append(order, g)
			}
			groups[g] |= 1 << uint(i)
		}
		full := ^uint64(0)
		if n < 64 {
			full = (uint64(1) << uint(n)) - 1
		}
		for _, g := range order {
			subsets = append(subsets, full&^groups[g])
		}
		if len(order) > 2 && len(order) <= 8 { // every pair of groups evicted
			for i := range order {
				for j := i + 1; j < len(order); j++ {
					subsets = append(subsets, full&^groups[order[i]]&^groups[order[j]])
				}
			}
		} else if len(order) > 8 {
			for k := 0; k < 12; k++ {
				a, b := order[rng.Intn(len(order))], order[rng.Intn(len(order))]
				subsets = append(subsets, full&^groups[a]&^groups[b])
			}
		}
	}
	for si, mask := range subsets {
		d := filepath.Join(dir, fmt.Sprintf("s%d", si))
		var chosen []string
		for i, f := range F {
			if i < 64 && mask&(1<<uint(i)) != 0 {
				chosen = append(chosen, f)
			}
		}
		sys.CopyFiles(clean, d, chosen)
		// one run in four also finds what an OLDER release left in the stores' directories: snapshot files whose names
		// carry a trace id (<end>-<start>.<traceid>.partial|kv). They are not snapshots of this release: the storage scan
		// skips every one of them (and deletes at most 100 per walk), so more than 100 of them per directory are laid down,
		// one per snapshot of the clean run and per trace id, with the real file's bytes.
		legacy := 0
		if si%4 == 1 {
			legacy = layLegacy(clean, d, F, rng.Range(101, 120))
		}
		prod := rng.Chance(3, 4)
		r := w.Run(d, sc.Req(prod, rng.Range(1, 3)), sys.Opts{Sched: rng.Fork(), Timeout: 12 * time.Second})
		ans := nonEmpty(r)
		rr := runRes{line: fmt.Sprintf("%s | subset %d/%d files mask=%x prod=%v", base, len(chosen), n, mask, prod), ans: ans, nt: len(chosen) > 0 && len(chosen) < n,
			counts: []string{fmt.Sprintf("files:%d", min(n, 30)), fmt.Sprintf("prod:%v", prod), "err:" + r.ErrClass(), fmt.Sprintf("legacy-trace-id-files:%v", legacy > 0)}}
		if strings.Contains(ans, "ERR:timeout") {
			rr.fails = append(rr.fails, [2]string{"C07/request-never-completes", fmt.Sprintf("on the subset %v the request does not finish", chosen)})
		} else if ans != ref {
			rr.fails = append(rr.fails, [2]string{"C07/cache-subset-changes-output", fmt.Sprintf("files present: %v || empty cache: %.300s || got: %.300s", chosen, ref, ans)})
		}
		// what it leaves behind
		for _, f := range sys.CacheFiles(d) {
			if want, ok := cleanContent[f]; ok {
				if got := sys.DecodeFile(d, f); got != want {
					if string(sys.NormTag([]byte(got))) == string(sys.NormTag([]byte(want))) {
						// only the raw set:/sum: tag of a set_sum value differs (squashed vs sequentially built store)
						rr.fails = append(rr.fails, [2]string{"C07/set_sum-tag-in-leftover-file", fmt.Sprintf("file %s: clean run %.200s || after running on subset %v: %.200s", f, want, chosen, got)})
					} else {
						rr.fails = append(rr.fails, [2]string{"C07/leftover-file-differs", fmt.Sprintf("file %s: clean run %.200s || after running on subset %v: %.200s", f, want, chosen, got)})
					}
				}
			}
		}
		out = append(out, rr)
		os.RemoveAll(d)
	}
	// ---- caches left by interrupted requests ("a cancelled request", "a half-written file is never taken for a complete
	// one"): the request is aborted while one of its jobs is half-way through its segment; whatever that leaves behind,
	// a later request must complete with the outputs of the empty cache, and no file may differ from the clean run's
	for k := 0; k < 2 && len(r0.Jobs) > 0; k++ {
		d := filepath.Join(dir, fmt.Sprintf("intr%d", k))
		job := rng.Intn(len(r0.Jobs))
		ab := w.Run(d, sc.Req(true, rng.Range(1, 2)), sys.Opts{Sched: rng.Fork(), Faults: []sys.Fault{{Job: job, Where: "abort"}}, Timeout: 12 * time.Second})
		time.Sleep(30 * time.Millisecond)
		left := sys.CacheFiles(d)
		rr := runRes{line: fmt.Sprintf("%s | after-aborted-request job=%d", base, job), nt: len(left) > 0, counts: []string{"aborted:" + ab.ErrClass(), fmt.Sprintf("aborted-left-files:%d", min(len(left), 20))}}
		for _, f := range left {
			if want, ok := cleanContent[f]; ok {
				if got := sys.DecodeFile(d, f); string(sys.NormTag([]byte(got))) != string(sys.NormTag([]byte(want))) {
					rr.fails = append(rr.fails, [2]string{"C07/half-written-file-taken-for-complete", fmt.Sprintf("request aborted in job %d left %s = %.200s || clean run: %.200s", job, f, got, want)})
				}
			}
		}
		r := w.Run(d, sc.Req(true, rng.Range(1, 3)), sys.Opts{Sched: rng.Fork(), Timeout: 12 * time.Second})
		rr.ans = nonEmpty(r)
		if strings.Contains(rr.ans, "ERR:timeout") {
			rr.fails = append(rr.fails, [2]string{"C07/request-never-completes", fmt.Sprintf("after a request aborted in job %d (files %v) the request does not finish", job, left)})
		} else if rr.ans != ref {
			rr.fails = append(rr.fails, [2]string{"C07/cache-subset-changes-output", fmt.Sprintf("after a request aborted in job %d, files present: %v || empty cache: %.300s || got: %.300s", job, left, ref, rr.ans)})
		}
		out = append(out, rr)
		os.RemoveAll(d)
	}
	return out
}

// layLegacy writes, in the directory of every store snapshot of the clean run (present in the subset or not), files
// named like that snapshot but with a trace id, until each such directory holds at least perDir of them; returns how many.
func layLegacy(clean, d string, F []string, perDir int) int {
	byDir := map[string][]string{}
	for _, f := range F {
		b := filepath.Base(f)
		if strings.HasSuffix(b, ".partial.zst") || strings.HasSuffix(b, ".kv.zst") {
			byDir[filepath.Dir(f)] = append(byDir[filepath.Dir(f)], f)
		}
	}
	n := 0
	for dir, fs := range byDir {
		for k := 0; k*len(fs) < perDir; k++ {
			for _, f := range fs {
				b := filepath.Base(f)
				ext := ".kv.zst"
				if strings.HasSuffix(b, ".partial.zst") {
					ext = ".partial.zst"
				}
				name := strings.TrimSuffix(b, ext) + fmt.Sprintf(".%016x", 0xabc0000+k) + ext
				data, err := os.ReadFile(filepath.Join(clean, "store", f))
				if err != nil {
					data = []byte{}
				}
				dst := filepath.Join(d, "store", dir, name)
				os.MkdirAll(filepath.Dir(dst), 0o755)
				if os.WriteFile(dst, data, 0o644) == nil {
					n++
				}
			}
		}
	}
	return n
}

func main() {
	o := common.ParseFlags()
	out := common.NewOut(o.Out)
	defer out.Finish()
	out.Rule = "scenarios as in C01 (seeded graphs with stores, indexes, filtered modules, differing initial blocks; start/stop/finality/segment size); F = cache files left by a complete production run plus 0-2 other requests; the request is re-run (one run in four with, in addition, more than 100 legacy files per store directory whose names carry a trace id) on every subset of F when 2^|F| <= 24 (quick) / 400 (thorough), else on the empty set, the full set and seeded sparse/dense subsets, in production (3/4) or development mode, 1-3 workers, seeded completion order; non-trivial = proper non-empty subset; distinct by (scenario, subset mask)"
	root := filepath.Join(o.Out, "sys")
	emit := func(rs []runRes, replay string) {
		for _, r := range rs {
			out.Case(r.line, r.ans, r.nt)
			for _, c := range r.counts {
				out.Count(c)
			}
			for _, fl := range r.fails {
				out.Fail(fl[0], fl[1], replay)
			}
		}
	}
	if lines := o.ReplayLines(); lines != nil {
		for _, l := range lines {
			if psc, ok := common.ParseScen("SCEN", l); ok {
				emit(scenario(psc.Seed, psc.Idx, psc.Tier, root, psc.Fixed, nil), l)
			}
		}
		return
	}
	n := 40
	if o.Thorough() {
		n = 300
	}
	// past failures first (checks/../corpus/<id>.txt: witnesses of repaired defects and of seeded changes), then n generated scenarios
	scens := o.Scens("SCEN", n)
	n = len(scens)
	results := make([][]runRes, n)
	encs := make([]string, n)
	var wg sync.WaitGroup
	sem := make(chan struct{}, 12)
	for i := 0; i < n; i++ {
		wg.Add(1)
		sem <- struct{}{}
		go func(i int) {
			defer wg.Done()
			defer func() { <-sem }()
			results[i], encs[i] = scenarioX(scens[i], filepath.Join(root, fmt.Sprintf("k%d", i)))
		}(i)
	}
	wg.Wait()
	for i, rs := range results {
		emit(rs, common.Scen{Seed: scens[i].Seed, Idx: scens[i].Idx, Tier: scens[i].Tier, Fixed: encs[i]}.String())
	}
}

// world.go: one "world" = the REAL scheduler of /repo wired by the REAL BuildParallelProcessor
// (stage.NewStages, Stages.FetchStoresState, work.NewWorkerPool, execout walker) on a real local dstore,
// plus the harness-owned bag of in-flight loop.Cmd's and a fake tier2 worker.
package main

import (
	"context"
	"fmt"
	"os"
	"path/filepath"
	"reflect"
	"runtime"
	"runtime/debug"
	"sort"
	"strconv"
	"strings"
	"time"

	"github.com/RoaringBitmap/roaring/roaring64"
	"github.com/streamingfast/dstore"
	"github.com/streamingfast/substreams"
	"github.com/streamingfast/substreams/block"
	"github.com/streamingfast/substreams/metrics"
	"github.com/streamingfast/substreams/orchestrator"
	orchexecout "github.com/streamingfast/substreams/orchestrator/execout"
	"github.com/streamingfast/substreams/orchestrator/loop"
	"github.com/streamingfast/substreams/orchestrator/plan"
	"github.com/streamingfast/substreams/orchestrator/response"
	"github.com/streamingfast/substreams/orchestrator/scheduler"
	"github.com/streamingfast/substreams/orchestrator/stage"
	"github.com/streamingfast/substreams/orchestrator/work"
	pbsubstreams "github.com/streamingfast/substreams/pb/sf/substreams/v1"
	"github.com/streamingfast/substreams/pipeline/exec"
	"github.com/streamingfast/substreams/reqctx"
	"github.com/streamingfast/substreams/storage/execout"
	"github.com/streamingfast/substreams/storage/index"
	"github.com/streamingfast/substreams/storage/store"
	"go.uber.org/zap"
)

// ---------------------------------------------------------------- generator-level configuration

// genCfg is what a request + module graph look like before the real planner/graph code digests them.
type genCfg struct {
	Prod    bool
	K       uint64
	Stores  [][]uint64 // store stages, each a list of module initial blocks
	MapInit uint64     // initial block of the output mapper x
	Start   uint64     // resolved start block
	Hand    uint64     // linear hand-off block
	Stop    uint64     // exclusive end block (0 = none)
	Idx     bool       // the output module x is a block-index module (optional 8th field ":i" of g=)
}

func (g genCfg) String() string {
	var st []string
	for _, s := range g.Stores {
		var ms []string
		for _, m := range s {
			ms = append(ms, strconv.FormatUint(m, 10))
		}
		st = append(st, strings.Join(ms, ","))
	}
	mode := "d"
	if g.Prod {
		mode = "p"
	}
	ss := strings.Join(st, "/")
	if ss == "" {
		ss = "-"
	}
	out := fmt.Sprintf("%s:%d:%s:%d:%d:%d:%d", mode, g.K, ss, g.MapInit, g.Start, g.Hand, g.Stop)
	if g.Idx {
		out += ":i" // optional suffix: lines written before the flag existed still parse
	}
	return out
}

func parseGen(s string) genCfg {
	p := strings.Split(s, ":")
	if len(p) != 7 && !(len(p) == 8 && p[7] == "i") {
		panic("bad g= " + s)
	}
	g := genCfg{Idx: len(p) == 8, Prod: p[0] == "p", K: atou(p[1]), MapInit: atou(p[3]), Start: atou(p[4]), Hand: atou(p[5]), Stop: atou(p[6])}
	if p[2] != "-" {
		for _, st := range strings.Split(p[2], "/") {
			var ms []uint64
			for _, m := range strings.Split(st, ",") {
				ms = append(ms, atou(m))
			}
			g.Stores = append(g.Stores, ms)
		}
	}
	return g
}

func atou(s string) uint64 {
	n, err := strconv.ParseUint(s, 10, 64)
	if err != nil {
		panic(err)
	}
	return n
}

// file seeds: F<stage>.<mod>:<start>-<end> (full kv), P<stage>.<mod>:<start>-<end> (partial), O:<start>-<end> (output of
// x: the mapper's .output file, or the .index file when x is a block-index module)
type fileSeed struct {
	Kind       byte // 'F' 'P' 'O'
	Stage, Mod int
	Start, End uint64
}

func (f fileSeed) String() string {
	if f.Kind == 'O' {
		return fmt.Sprintf("O:%d-%d", f.Start, f.End)
	}
	return fmt.Sprintf("%c%d.%d:%d-%d", f.Kind, f.Stage, f.Mod, f.Start, f.End)
}

func parseSeeds(s string) []fileSeed {
	if s == "-" || s == "" {
		return nil
	}
	var out []fileSeed
	for _, t := range strings.Split(s, ",") {
		var f fileSeed
		f.Kind = t[0]
		c := strings.IndexByte(t, ':')
		if f.Kind != 'O' {
			sm := strings.Split(t[1:c], ".")
			f.Stage, _ = strconv.Atoi(sm[0])
			f.Mod, _ = strconv.Atoi(sm[1])
		}
		r := strings.Split(t[c+1:], "-")
		f.Start, f.End = atou(r[0]), atou(r[1])
		out = append(out, f)
	}
	return out
}

func seedsString(fs []fileSeed) string {
	if len(fs) == 0 {
		return "-"
	}
	var p []string
	for _, f := range fs {
		p = append(p, f.String())
	}
	return strings.Join(p, ",")
}

// ---------------------------------------------------------------- module graph

func srcInput() *pbsubstreams.Module_Input {
	return &pbsubstreams.Module_Input{Input: &pbsubstreams.Module_Input_Source_{Source: &pbsubstreams.Module_Input_Source{Type: "sf.test.Block"}}}
}
func storeInput(n string) *pbsubstreams.Module_Input {
	return &pbsubstreams.Module_Input{Input: &pbsubstreams.Module_Input_Store_{Store: &pbsubstreams.Module_Input_Store{ModuleName: n, Mode: pbsubstreams.Module_Input_Store_GET}}}
}

const indexOutputType = "proto:sf.substreams.index.v1.Keys"

func storeName(stage, mod int) string { return fmt.Sprintf("s%dm%d", stage, mod) }

func buildModules(g genCfg) *pbsubstreams.Modules {
	mods := &pbsubstreams.Modules{Binaries: []*pbsubstreams.Binary{{Type: "wasm/rust-v1", Content: []byte("x")}}}
	for j, st := range g.Stores {
		for i, init := range st {
			m := &pbsubstreams.Module{
				Name: storeName(j, i), InitialBlock: init, BinaryEntrypoint: storeName(j, i),
				Kind:   &pbsubstreams.Module_KindStore_{KindStore: &pbsubstreams.Module_KindStore{UpdatePolicy: pbsubstreams.Module_KindStore_UPDATE_POLICY_SET, ValueType: "string"}},
				Inputs: []*pbsubstreams.Module_Input{srcInput()},
			}
			if j > 0 {
				for i2 := range g.Stores[j-1] {
					m.Inputs = append(m.Inputs, storeInput(storeName(j-1, i2)))
				}
			}
			mods.Modules = append(mods.Modules, m)
		}
	}
	x := &pbsubstreams.Module{
		Name: "x", InitialBlock: g.MapInit, BinaryEntrypoint: "x",
		Kind:   &pbsubstreams.Module_KindMap_{KindMap: &pbsubstreams.Module_KindMap{OutputType: "proto:t"}},
		Inputs: []*pbsubstreams.Module_Input{srcInput()},
		Output: &pbsubstreams.Module_Output{Type: "proto:t"},
	}
	if g.Idx {
		// the output module is a block-index module: tier1 builds no cached-output walker, the last stage is still a
		// "mapper" stage for NewStages (layerKind: not a store layer), its files live in <hash>/index/
		x.Kind = &pbsubstreams.Module_KindBlockIndex_{KindBlockIndex: &pbsubstreams.Module_KindBlockIndex{OutputType: indexOutputType}}
		x.Output = &pbsubstreams.Module_Output{Type: indexOutputType}
	}
	if n := len(g.Stores); n > 0 {
		for i2 := range g.Stores[n-1] {
			x.Inputs = append(x.Inputs, storeInput(storeName(n-1, i2)))
		}
	}
	mods.Modules = append(mods.Modules, x)
	return mods
}

// ---------------------------------------------------------------- the world

type modInfo struct {
	Name string
	Init uint64
}

type jobStart struct {
	Unit    stage.Unit
	Missing []string // full-kv snapshots at the job's start block that tier2 would have to load and that do not exist
	StateKO []string // lower-stage units of the previous segment that are neither Completed nor NoOp
	Shift   bool     // the unit's stage position differs from the stage's index in the graph (what tier2 is told)
	Step    int
}

type world struct {
	g     genCfg
	W     int
	dir   string
	ctx   context.Context
	graph *exec.Graph
	plan  *plan.RequestPlan

	storeCfgs store.ConfigMap
	outCfgs   *execout.Configs
	idxCfgs   *index.Configs // the index files of a block-index output module (what tier2 builds with index.NewConfigs)
	stages    [][]modInfo // graph stages: store modules, or [x] for the map stage
	kinds     []byte      // 'S' / 'M' per graph stage

	pp    *orchestrator.ParallelProcessor
	sched *scheduler.Scheduler
	bag   []loop.Cmd

	workers                  []*fakeWorker
	jobStarts                []jobStart
	merges                   []string // "(segment,stage)" in delivery order of MsgMergeFinished
	mergeUnits               []stage.Unit
	mergeNextBefore          int  // segmentCompleted+1 of the unit's stage when the last MsgMergeFinished arrived
	mergeWasCompleted        bool // the unit of the last MsgMergeFinished was already Completed when the message arrived
	steps                    int
	ended                    string // "", "quit:nil", "quit:err", "panic:<where>"
	panicMsg                 string
	sent                     int // BlockScopedData messages streamed by the walker
	lsValid                  bool
	lsFulls, lsParts, lsOuts []string
	initErr                  string
}

var sharedStats *metrics.Stats
var nopLogger = zap.NewNop()

func baseCtx(g genCfg, mods *pbsubstreams.Modules) context.Context {
	if sharedStats == nil {
		sharedStats = metrics.NewReqStats(&metrics.Config{}, nopLogger)
	}
	ctx := context.Background()
	ctx = reqctx.WithLogger(ctx, nopLogger)
	ctx = reqctx.WithReqStats(ctx, sharedStats)
	ctx = reqctx.WithRequest(ctx, &reqctx.RequestDetails{
		Modules: mods, OutputModule: "x", ResolvedStartBlockNum: g.Start, LinearHandoffBlockNum: g.Hand,
		StopBlockNum: g.Stop, ProductionMode: g.Prod, MaxParallelJobs: 1,
	})
	return ctx
}

// planOf runs the real graph + plan builders. ok=false when the configuration needs no parallel processing
// (or is rejected).
func planOf(g genCfg) (graph *exec.Graph, p *plan.RequestPlan, mods *pbsubstreams.Modules, ok bool) {
	mods = buildModules(g)
	graph, err := exec.NewOutputModuleGraph("x", g.Prod, mods, 0)
	if err != nil {
		return nil, nil, nil, false
	}
	scheduleStores := graph.StagedUsedModules()[0].LastLayer().IsStoreLayer()
	var lowestStores uint64
	if scheduleStores {
		lowestStores = *graph.LowestStoresInitBlock()
	}
	p, err = plan.BuildTier1RequestPlan(g.Prod, g.K, graph.LowestInitBlock(), lowestStores, g.Start, g.Hand, g.Stop, scheduleStores)
	if err != nil || !p.RequiresParallelProcessing() {
		return nil, nil, nil, false
	}
	return graph, p, mods, true
}

// graphStages: per stage of the real graph, the modules of its last layer (in the graph's order) and its kind
func graphStages(graph *exec.Graph) (stages [][]modInfo, kinds []byte) {
	inits := graph.ModulesInitBlocks()
	for _, sl := range graph.StagedUsedModules() {
		layer := sl.LastLayer()
		var ms []modInfo
		for _, m := range layer {
			ms = append(ms, modInfo{m.Name, inits[m.Name]})
		}
		stages = append(stages, ms)
		if layer.IsStoreLayer() {
			kinds = append(kinds, 'S')
		} else {
			kinds = append(kinds, 'M')
		}
	}
	return
}

func newWorld(g genCfg, W int, seeds []fileSeed, dir string) (w *world) {
	if abs, err := filepath.Abs(dir); err == nil {
		dir = abs // dstore's file:// URL needs an absolute path (a relative one is resolved against /)
	}
	w = &world{g: g, W: W, dir: dir}
	graph, p, mods, ok := planOf(g)
	if !ok {
		w.initErr = "no-parallel"
		return w
	}
	w.graph, w.plan = graph, p
	w.ctx = baseCtx(g, mods)
	w.stages, w.kinds = graphStages(graph)
	_ = os.RemoveAll(dir)
	if err := os.MkdirAll(dir, 0o755); err != nil {
		panic(err)
	}
	base, err := dstore.NewStore("file://"+dir, "", "", true) // no compression: zstd encoder set-up dominated the run time
	if err != nil {
		panic(err)
	}
	w.storeCfgs, err = store.NewConfigMap(base, graph.Stores(), graph.ModuleHashes(), 0)
	if err != nil {
		panic(err)
	}
	w.outCfgs, err = execout.NewConfigs(base, graph.UsedModules(), graph.ModuleHashes(), g.K, 0, nopLogger)
	if err != nil {
		panic(err)
	}
	w.idxCfgs, err = index.NewConfigs(base, graph.UsedIndexModules(), graph.ModuleHashes(), 0, nopLogger)
	if err != nil {
		panic(err)
	}
	for _, f := range seeds {
		w.writeSeed(f)
	}
	factory := func(logger *zap.Logger) work.Worker {
		fw := &fakeWorker{w: w, id: len(w.workers)}
		w.workers = append(w.workers, fw)
		return fw
	}
	respFunc := func(resp substreams.ResponseFromAnyTier) error { w.sent++; return nil }
	func() {
		defer func() {
			if r := recover(); r != nil {
				w.ended = "panic:init"
				w.sched = nil
				w.panicMsg = fmt.Sprint(r)
			}
		}()
		pp, err := orchestrator.BuildParallelProcessor(w.ctx, p, factory, W, graph, w.outCfgs, respFunc, w.storeCfgs)
		if err != nil {
			w.initErr = "build:" + err.Error()
			return
		}
		w.pp = pp
		w.sched = pp.VerifScheduler()
		if c := w.sched.Init(); c != nil {
			w.bag = append(w.bag, c)
		}
	}()
	return w
}

func (w *world) close() { _ = os.RemoveAll(w.dir) }

func (w *world) writeSeed(f fileSeed) {
	switch f.Kind {
	case 'F':
		w.writeFull(w.stages[f.Stage][f.Mod].Name, f.End)
	case 'P':
		w.writePartial(w.stages[f.Stage][f.Mod].Name, f.Start, f.End)
	case 'O':
		w.writeOutput(f.Start, f.End)
	}
}

// real store API: an (empty) FullKV saved at `end` gives <end>-<init>.kv.zst
func (w *world) writeFull(name string, end uint64) {
	_, wr, err := w.storeCfgs[name].NewFullKV(nopLogger).Save(end)
	if err != nil {
		panic(err)
	}
	if err := wr.Write(w.ctx); err != nil {
		panic(err)
	}
}
func (w *world) writePartial(name string, start, end uint64) {
	_, wr, err := w.storeCfgs[name].NewPartialKV(start, nopLogger).Save(end)
	if err != nil {
		panic(err)
	}
	if err := wr.Write(w.ctx); err != nil {
		panic(err)
	}
}
func (w *world) writeOutput(start, end uint64) {
	if w.g.Idx {
		// what cache.Engine.EndOfStream does for a block-index module: the execout writer saves nothing, the index
		// writer saves <hash>/index/<start>-<end>.index (real index.File API; an index without keys)
		f := w.idxCfgs.ConfigMap["x"].NewFile(block.NewRange(start, end))
		f.Set(map[string]*roaring64.Bitmap{})
		if err := f.Save(w.ctx); err != nil {
			panic(err)
		}
		return
	}
	f := w.outCfgs.ConfigMap["x"].NewFile(block.NewRange(start, end))
	if err := f.Save(w.ctx); err != nil {
		panic(err)
	}
}
func (w *world) fullExists(name string, end uint64) bool {
	ok, err := w.storeCfgs[name].ExistsFullKV(w.ctx, end)
	if err != nil {
		panic(err)
	}
	return ok
}
func (w *world) partialExists(name string, start, end uint64) bool {
	ok, err := w.storeCfgs[name].ExistsPartialKV(w.ctx, start, end)
	if err != nil {
		panic(err)
	}
	return ok
}
func (w *world) outputExists(start, end uint64) bool {
	if w.g.Idx { // GetExecutionPlan: indexFile.Load(ctx) == nil
		return w.idxCfgs.ConfigMap["x"].NewFile(block.NewRange(start, end)).Load(w.ctx) == nil
	}
	_, err := w.outCfgs.ConfigMap["x"].ReadFile(w.ctx, block.NewRange(start, end))
	return err == nil
}

// listFiles walks the real directory: full-kv and output files, canonical + sorted (partials are listed
// separately: whether the squasher deletes a partial when a full snapshot also exists is a race in the code).
func (w *world) listFiles() (fulls, partials, outputs []string) {
	if w.lsValid { // the directory only changes when a job or a merge command runs (step invalidates)
		return w.lsFulls, w.lsParts, w.lsOuts
	}
	defer func() { w.lsFulls, w.lsParts, w.lsOuts, w.lsValid = fulls, partials, outputs, true }()
	hashes := w.graph.ModuleHashes()
	for j, ms := range w.stages {
		for i, m := range ms {
			h := hashes.Get(m.Name)
			if w.kinds[j] == 'S' {
				ents, _ := os.ReadDir(filepath.Join(w.dir, h, "states"))
				for _, e := range ents {
					n := strings.TrimSuffix(e.Name(), ".zst")
					var end, start uint64
					if strings.HasSuffix(n, ".kv") {
						fmt.Sscanf(n, "%d-%d.kv", &end, &start)
						fulls = append(fulls, fmt.Sprintf("%d.%d@%010d", j, i, end))
					} else if strings.HasSuffix(n, ".partial") {
						fmt.Sscanf(n, "%d-%d.partial", &end, &start)
						partials = append(partials, fmt.Sprintf("%d.%d@%010d-%010d", j, i, start, end))
					}
				}
			} else {
				sub, ext := "outputs", ".output"
				if w.g.Idx {
					sub, ext = "index", ".index" // execout.NewConfig / index.NewConfig: <hash>/index/<start>-<end>.index
				}
				ents, _ := os.ReadDir(filepath.Join(w.dir, h, sub))
				for _, e := range ents {
					n := strings.TrimSuffix(e.Name(), ".zst")
					var end, start uint64
					if strings.HasSuffix(n, ext) {
						fmt.Sscanf(n, "%d-%d"+ext, &start, &end)
						outputs = append(outputs, fmt.Sprintf("%010d-%010d", start, end))
					}
				}
			}
		}
	}
	sort.Strings(fulls)
	sort.Strings(partials)
	sort.Strings(outputs)
	return
}

func trimZeros(l []string) string {
	// "0.0@0000000010" -> "0.0@10"; "0000000020-0000000030" -> "20-30"
	var out []string
	for _, s := range l {
		var b strings.Builder
		i := 0
		for i < len(s) {
			if s[i] >= '0' && s[i] <= '9' && (i == 0 || s[i-1] == '@' || s[i-1] == '-') && i+10 <= len(s) {
				n, err := strconv.ParseUint(s[i:i+10], 10, 64)
				if err == nil {
					b.WriteString(strconv.FormatUint(n, 10))
					i += 10
					continue
				}
			}
			b.WriteByte(s[i])
			i++
		}
		out = append(out, b.String())
	}
	if len(out) == 0 {
		return "-"
	}
	return strings.Join(out, ",")
}

// ---------------------------------------------------------------- fake tier2 worker

type fakeWorker struct {
	w  *world
	id int
}

func (f *fakeWorker) ID() string { return strconv.Itoa(f.id) }

// Work is called synchronously by Scheduler.Update when the job is handed out: this is where the
// "job start => dependencies complete" predicate is evaluated on the real files and the real unit states.
func (f *fakeWorker) Work(ctx context.Context, unit stage.Unit, startBlock uint64, moduleNames []string, upstream *response.Stream) loop.Cmd {
	w := f.w
	// the scheduler hands the worker the stage's index in the module graph (GraphUnit); the position of the stage in
	// Stages.stages is what the unit-state matrix is indexed by
	pos := -1
	for p := 0; p < w.sched.Stages.VerifStageCount(); p++ {
		if w.sched.Stages.VerifStageIdx(p) == unit.Stage &&
			w.sched.Stages.VerifUnitState(stage.Unit{Segment: unit.Segment, Stage: p}) == stage.UnitScheduled {
			pos = p
			break
		}
	}
	graphUnit := unit
	shift := pos < 0
	if shift {
		pos = unit.Stage // the unit is not the graph unit of any Scheduled cell: it was passed positionally
	}
	unit = stage.Unit{Segment: unit.Segment, Stage: pos}
	js := jobStart{Unit: unit, Step: w.steps}
	seg := startBlock / w.g.K // what work.NewRequest computes
	start := seg * w.g.K
	t := graphUnit.Stage // what work.NewRequest puts in the tier2 request
	for j := 0; j < t && j < len(w.stages); j++ {
		if w.kinds[j] != 'S' {
			continue
		}
		for i, m := range w.stages[j] {
			if m.Init < start && !w.fullExists(m.Name, start) {
				js.Missing = append(js.Missing, fmt.Sprintf("%d.%d@%d", j, i, start))
			}
		}
	}
	for j := 0; j < unit.Stage; j++ {
		st := w.sched.Stages.VerifUnitState(stage.Unit{Segment: unit.Segment - 1, Stage: j})
		if st != stage.UnitCompleted && st != stage.UnitNoOp {
			js.StateKO = append(js.StateKO, fmt.Sprintf("(%d,%d)=%s", unit.Segment-1, j, st))
		}
	}
	js.Shift = shift
	w.jobStarts = append(w.jobStarts, js)
	return func() loop.Msg {
		w.runJob(t, seg)
		return work.MsgJobSucceeded{Unit: graphUnit, Worker: f}
	}
}

// runJob leaves the files a real tier2 job for (graph stage t, segment seg) leaves (service.GetExecutionPlan,
// pipeline.setupSubrequestStores, Stores.saveStoresSnapshots, cache.Engine.EndOfStream): for every store used up to
// stage t that has neither a full snapshot at the segment end nor its partial: a partial for the stores of stage t,
// a full snapshot for the stores of lower stages; and, when t is the last (mapper) stage and the output module has
// started, the file of the output module x for [max(start, init), stop) unless it exists already:
//   - x is a map: <hash>/outputs/<start>-<stop>.output (execout.Writer.Close).  An existing output file no longer
//     makes the job a no-op (GetExecutionPlan since 6f136481 only skips when no store is left to write): the stores
//     are written all the same.
//   - x is a block-index module: <hash>/index/<start>-<stop>.index (index.Writer.Close from EndOfStream; the execout
//     writer of an index module saves nothing).  GetExecutionPlan never skips such a job (outputModuleDone is only
//     set for a map); an existing index file is loaded (ExistingIndices) and not rewritten.
func (w *world) runJob(t int, seg uint64) {
	k := w.g.K
	start, stop := seg*k, seg*k+k
	if t >= len(w.stages) {
		return
	}
	for j := 0; j <= t; j++ {
		if w.kinds[j] != 'S' {
			continue
		}
		for _, m := range w.stages[j] {
			if m.Init >= stop {
				continue
			}
			ms := max(start, m.Init)
			if w.fullExists(m.Name, stop) || w.partialExists(m.Name, ms, stop) {
				continue
			}
			if j == t {
				w.writePartial(m.Name, ms, stop)
			} else {
				w.writeFull(m.Name, stop)
			}
		}
	}
	if w.kinds[t] == 'M' {
		x := w.stages[t][0]
		if x.Init < stop {
			if ms := max(start, x.Init); !w.outputExists(ms, stop) {
				w.writeOutput(ms, stop)
			}
		}
	}
}

// ---------------------------------------------------------------- commands

func cmdTag(c loop.Cmd) string {
	// the closure's function name identifies the constructor that made it; when the constructor was inlined the
	// name is <caller>.<constructor>.funcN, otherwise <pkg>.<constructor>.funcN
	n := runtime.FuncForPC(reflect.ValueOf(c).Pointer()).Name()
	parts := strings.Split(n, ".")
	for len(parts) > 0 {
		l := parts[len(parts)-1]
		if strings.HasPrefix(l, "func") || (l != "" && l[0] >= '0' && l[0] <= '9') {
			parts = parts[:len(parts)-1]
			continue
		}
		break
	}
	if len(parts) == 0 {
		return "?" + n
	}
	switch parts[len(parts)-1] {
	case "Batch":
		return "B"
	case "CmdScheduleNextJob":
		return "N"
	case "CmdAllStoresCompleted", "Init":
		return "A"
	case "CmdMergeNotReady":
		return "R"
	case "CmdTryMerge":
		return "G"
	case "CmdDownloadSegment":
		return "D"
	case "CmdDownloadCurrentSegment":
		return "L"
	case "CmdWalkerCompleted":
		return "K"
	case "cmdShutdownWhenComplete":
		return "Q"
	case "Quit":
		return "X"
	case "Tick":
		return "T"
	case "Work":
		return "J"
	}
	return "?" + n
}

func (w *world) bagTags() string {
	var b strings.Builder
	for _, c := range w.bag {
		b.WriteString(cmdTag(c))
	}
	if b.Len() == 0 {
		return "-"
	}
	return b.String()
}

var stuckCommands int

// step executes the bag's command #idx, then (unless it was a batch / quit) delivers its message to the real
// Scheduler.Update.  elapsed: whether the worker pool sees its 4 s ramp-up delay as over.  Returns the
// canonical description of the step (same text as lean/Driver/C05.lean `stepKind`).
func (w *world) step(idx int, elapsed bool) (kind string) {
	if w.ended != "" || idx >= len(w.bag) {
		return "noop"
	}
	c := w.bag[idx]
	w.bag = append(append([]loop.Cmd{}, w.bag[:idx]...), w.bag[idx+1:]...)
	w.steps++
	tag := cmdTag(c)
	if tag == "J" || tag == "G" {
		w.lsValid = false
	}
	var msg loop.Msg
	if tag == "T" {
		// loop.Tick(1s, fn): the only Tick the scheduler creates answers MsgScheduleNextJob; not slept.
		msg = work.MsgScheduleNextJob{}
		kind = "tick"
	} else {
		n0 := runtime.NumGoroutine()
		// watchdog: a command of the real scheduler that does not answer within 20 s (a merge waiting for a file that
		// nobody will write, loadStore's retries piling up) ends the case as a failure instead of eating the whole
		// harness time-out; after three of them no further command is executed in this run
		if stuckCommands >= 3 {
			w.ended = "panic"
			w.panicMsg = "not run: three commands already did not return"
			return "exec" + tag + "!panic"
		}
		done := make(chan struct{})
		var res loop.Msg
		var pan string
		go func() {
			defer close(done)
			defer func() {
				if r := recover(); r != nil {
					pan = "in command " + tag + ": " + fmt.Sprint(r)
				}
			}()
			res = c()
		}()
		select {
		case <-done:
			msg = res
			if pan != "" {
				w.ended = "panic"
				w.panicMsg = pan
			}
		case <-time.After(20 * time.Second):
			stuckCommands++
			w.ended = "panic"
			w.panicMsg = "command " + tag + " did not return within 20 s"
		}
		if tag == "G" {
			// getPartialOrFullKV returns at the first successful load and leaves the other goroutine running; it
			// may still write StoreModuleState afterwards: let it finish so that the run is reproducible
			for i := 0; i < 2000 && runtime.NumGoroutine() > n0; i++ {
				time.Sleep(10 * time.Microsecond)
			}
		}
		if w.ended != "" {
			return "exec" + tag + "!panic"
		}
	}
	if tag == "G" {
		if err := w.sched.Stages.WaitAsyncWork(); err != nil { // async snapshot write / partial delete (F9 abstracted)
			w.ended = "panic"
			w.panicMsg = "async work: " + err.Error()
			return "async!panic"
		}
	}
	switch m := msg.(type) {
	case loop.BatchMsg:
		for _, c2 := range m {
			w.bag = append(w.bag, c2)
		}
		return fmt.Sprintf("batch%d", len(m))
	case loop.QuitMsg:
		s := fmt.Sprintf("%v", m)
		if s == "{<nil>}" {
			w.ended = "quit:nil"
		} else {
			w.ended = "quit:err"
			w.panicMsg = s
		}
		return w.ended
	case work.MsgJobSucceeded:
		pu := w.sched.Stages.PositionalUnit(m.Unit) // the worker reports the graph unit; Update translates it back
		kind += fmt.Sprintf("jobOK(%d,%d)", pu.Segment, pu.Stage)
	case work.MsgScheduleNextJob:
		kind += "schedNext"
		if elapsed {
			kind += "+e"
		}
	case stage.MsgMergeFinished:
		kind += fmt.Sprintf("mergeFinished(%d,%d)", m.Unit.Segment, m.Unit.Stage)
		w.merges = append(w.merges, fmt.Sprintf("(%d,%d)", m.Unit.Segment, m.Unit.Stage))
		w.mergeUnits = append(w.mergeUnits, m.Unit)
		w.mergeWasCompleted = w.sched.Stages.VerifUnitState(m.Unit) == stage.UnitCompleted
		w.mergeNextBefore = w.sched.Stages.VerifSegmentCompleted(m.Unit.Stage) + 1
	case stage.MsgMergeFailed:
		kind += fmt.Sprintf("mergeFailed(%d,%d)", m.Unit.Segment, m.Unit.Stage)
		w.panicMsg = m.Error.Error()
	case stage.MsgMergeNotReady:
		kind += fmt.Sprintf("mergeNotReady(%d,%d)", m.NextUnit.Segment, m.NextUnit.Stage)
	case stage.MsgAllStoresCompleted:
		kind += "allStores"
	case orchexecout.MsgDownloadSegment:
		kind += "dlSegment"
	case orchexecout.MsgFileNotPresent:
		kind += "fileNotPresent"
		msg = orchexecout.MsgFileNotPresent{NextWait: 0} // the polling delay is not slept
	case orchexecout.MsgFileDownloaded:
		kind += "fileDownloaded"
	case orchexecout.MsgWalkerCompleted:
		kind += "walkerCompleted"
	default:
		kind += fmt.Sprintf("?%T", msg)
	}
	w.sched.WorkerPool.VerifSetRampupElapsed(elapsed)
	var out loop.Cmd
	func() {
		defer func() {
			if r := recover(); r != nil {
				w.ended = "panic"
				w.panicMsg = fmt.Sprint(r)
				if os.Getenv("VH_C05_DEBUG") != "" {
					fmt.Fprintf(os.Stderr, "panic in Update: %v\n%s\n", r, debug.Stack())
				}
			}
		}()
		out = w.sched.Update(msg)
	}()
	if w.ended != "" {
		return kind + "!panic"
	}
	if out != nil {
		w.bag = append(w.bag, out)
		return kind + ">1"
	}
	return kind + ">0"
}

// record is the canonical state after a step (same text as lean/Driver/C05.lean produces).
func (w *world) record() string {
	if w.sched == nil {
		return "init:" + w.initErr + w.ended
	}
	if w.ended == "panic" {
		return "PANIC"
	}
	var b strings.Builder
	b.WriteString(strings.ReplaceAll(strings.TrimSuffix(w.sched.Stages.StatesString(), "\n"), "\n", "/"))
	b.WriteString(" ")
	b.WriteString(w.sched.Stages.VerifFingerprint())
	b.WriteString(" pool=")
	b.WriteString(w.sched.WorkerPool.VerifStates())
	b.WriteString(" walk=")
	if wk := w.sched.ExecOutWalker; wk != nil {
		f, c, l := wk.Progress()
		fmt.Fprintf(&b, "%d/%d/%d", f, c, l)
		if wk.IsWorking() {
			b.WriteString("w")
		}
	} else {
		b.WriteString("-")
	}
	o, s := w.sched.VerifFlags()
	fmt.Fprintf(&b, " flags=%v,%v bag=%s", b2i(o), b2i(s), w.bagTags())
	fulls, _, outs := w.listFiles()
	fmt.Fprintf(&b, " full=%s out=%s", trimZeros(fulls), trimZeros(outs))
	return b.String()
}

func b2i(b bool) int {
	if b {
		return 1
	}
	return 0
}

// vh_c05: correspondence cases + property oracle for C05 (the segment scheduler is safe and live under every
// ordering of events).
//
// Real code driven: orchestrator.BuildParallelProcessor (stage.NewStages, Stages.FetchStoresState on a real
// local dstore seeded with snapshot files, work.NewWorkerPool, the execout walker), scheduler.Scheduler.Init
// and scheduler.Scheduler.Update called directly; the harness owns the bag of returned loop.Cmd's and executes
// them in the order the schedule dictates (seeded random / exhaustive); the squashing closures are the real
// ones (real files are merged); tier2 jobs are played by a fake worker that leaves the files a real job leaves.
//
// g=<p|d>:<K>:<store stages>:<init of x>:<start>:<hand-off>:<stop>[:i]   (":i": the output module x is a block-index
// module; idx=1 then)
//
// Case line:  RUN g=<generator cfg> w=<workers> k= st= bs= we= re= start= xi= idx= fix=7 files=<seeds> sched=<choices> v=<0|1>
//
//	(fix= tells the model which code it is compared with: 7 = the repository at HEAD, i.e. with the three
//	scheduler fixes 38ce9883 (stage index, bit 4), d60dce44 (dependenciesCompleted, bit 1) and 9da4cc23
//	(markShadowedUnits, bit 2); a replayed line's fix= is replaced by the value of the code under test)
//
// Answer:     steps= end= h=<FNV-1a of every step's description+state> jobs= merges= last=<final state>
package main

import (
	"fmt"
	"os"
	"path/filepath"
	"regexp"
	"sort"
	"strconv"
	"strings"

	"github.com/streamingfast/substreams/block"
	"github.com/streamingfast/substreams/orchestrator/stage"

	"verifharness/common"
)

var out *common.Out

// fixFlag is the `fix=` value written into the case lines: which of the three scheduler fixes the code under test
// contains (7 = the repository at HEAD; 4 = before d60dce44/9da4cc23, 0 = before 38ce9883: `-extra fix=N` when the
// harness is built against an older checkout)
var fixFlag = "7"

// genDevIdx (-extra devidx=0 turns it off): also generate DEVELOPMENT-mode requests whose output is a block-index
// module.  Before the repair of F28 such a request panicked as soon as its stores were complete (nil dereference in
// Stages.LastStageCompleted: no mapper stage is scheduled in development mode, mapSegmenter is nil); the witnesses are
// in witness_devidx_panic.case and are replayed at every run.
var genDevIdx = true

var fixRe = regexp.MustCompile(` fix=\d+ `)

// withFix replaces the fix= token of a stored case line by the value of the code under test
func withFix(line string) string { return fixRe.ReplaceAllString(line, " fix="+fixFlag+" ") }

// report records an oracle failure; only the first few witnesses of a class are kept (the failure list of
// common.Out is bounded), every occurrence is counted.
var classCount = map[string]int{}

func report(class, desc, caseLine string) {
	classCount[class]++
	if classCount[class] <= 3 {
		out.Fail(class, desc, caseLine)
	} else {
		out.Count("oracle-fail:" + class)
	}
}

var fsRoot string
var fsN int

func nextDir() string {
	fsN++
	return filepath.Join(fsRoot, strconv.Itoa(fsN%64))
}

// ---------------------------------------------------------------- case lines

type choice struct {
	Idx     int
	Elapsed bool
}

func schedString(cs []choice) string {
	if len(cs) == 0 {
		return "-"
	}
	var b strings.Builder
	for i, c := range cs {
		if i > 0 {
			b.WriteByte(',')
		}
		b.WriteString(strconv.Itoa(c.Idx))
		if c.Elapsed {
			b.WriteByte('e')
		}
	}
	return b.String()
}
func parseSched(s string) []choice {
	if s == "-" || s == "" {
		return nil
	}
	var out []choice
	for _, t := range strings.Split(s, ",") {
		c := choice{}
		if strings.HasSuffix(t, "e") {
			c.Elapsed = true
			t = t[:len(t)-1]
		}
		c.Idx, _ = strconv.Atoi(t)
		out = append(out, c)
	}
	return out
}

func rangeStr(r *block.Range) string {
	if r == nil {
		return "nil"
	}
	return fmt.Sprintf("%d-%d", r.StartBlock, r.ExclusiveEndBlock)
}

// cfgTokens renders what the real graph + planner hand to NewStages / BuildParallelProcessor.
func cfgTokens(g genCfg, W int) (string, bool) {
	graph, p, _, ok := planOf(g)
	if !ok {
		return "", false
	}
	inits := graph.ModulesInitBlocks()
	var st []string
	for _, sl := range graph.StagedUsedModules() {
		layer := sl.LastLayer()
		k := "M"
		if layer.IsStoreLayer() {
			k = "S"
		}
		var ms []string
		for _, m := range layer {
			ms = append(ms, strconv.FormatUint(inits[m.Name], 10))
		}
		st = append(st, k+strings.Join(ms, ","))
	}
	// idx: what NewStages reads (execGraph.OutputModule().GetKindBlockIndex() != nil)
	return fmt.Sprintf("g=%s w=%d k=%d st=%s bs=%s we=%s re=%s start=%d xi=%d idx=%d",
		g.String(), W, g.K, strings.Join(st, ";"), rangeStr(p.BuildStores), rangeStr(p.WriteExecOut), rangeStr(p.ReadExecOut),
		g.Start, inits["x"], b2i(graph.OutputModule().GetKindBlockIndex() != nil)), true
}

func kvOf(toks []string, key string) string {
	for _, t := range toks {
		if strings.HasPrefix(t, key+"=") {
			return t[len(key)+1:]
		}
	}
	return ""
}

// ---------------------------------------------------------------- running one case on the real code

type runResult struct {
	answer string
	w      *world
	recs   []string // per step "kind record" (kept only when asked)
}

func fnvAdd(h uint64, s string) uint64 {
	for i := 0; i < len(s); i++ {
		h ^= uint64(s[i])
		h *= 1099511628211
	}
	return h
}

func jobsString(w *world) string {
	if len(w.jobStarts) == 0 {
		return "-"
	}
	var p []string
	for _, j := range w.jobStarts {
		s := fmt.Sprintf("(%d,%d)", j.Unit.Segment, j.Unit.Stage)
		if len(j.Missing) == 0 {
			s += "ok"
		} else {
			s += "KO[" + strings.Join(j.Missing, "+") + "]"
		}
		p = append(p, s)
	}
	return strings.Join(p, ",")
}

func endString(w *world) string {
	switch {
	case w.ended == "" && len(w.bag) == 0:
		return "stuck"
	case w.ended == "":
		return "open"
	}
	return w.ended
}

func answerOf(w *world, h uint64, last string, trace []string) string {
	if w.sched == nil {
		if w.ended == "panic:init" {
			return "steps=0 end=panic:init"
		}
		return "steps=0 end=init:" + w.initErr
	}
	m := "-"
	if len(w.merges) > 0 {
		m = strings.Join(w.merges, ",")
	}
	a := fmt.Sprintf("steps=%d end=%s h=%016x jobs=%s merges=%s last=%s", w.steps, endString(w), h, jobsString(w), m, last)
	if trace != nil {
		a += " trace=" + strings.Join(trace, " || ")
	}
	return a
}

// runLine replays a RUN line on the real code, evaluates the oracle, and returns the canonical answer.
func runLine(line string, check bool) string {
	toks := strings.Fields(line)
	if len(toks) == 0 || toks[0] != "RUN" {
		return "bad-op"
	}
	g := parseGen(kvOf(toks, "g"))
	W, _ := strconv.Atoi(kvOf(toks, "w"))
	seeds := parseSeeds(kvOf(toks, "files"))
	sched := parseSched(kvOf(toks, "sched"))
	verbose := kvOf(toks, "v") == "1"
	w := newWorld(g, W, seeds, nextDir())
	defer w.close()
	if w.sched == nil {
		if check {
			oracleInit(w, line)
		}
		return answerOf(w, 0, "", nil)
	}
	r0 := w.record()
	h := fnvAdd(14695981039346656037, r0+"\n")
	var trace []string
	if verbose {
		trace = []string{r0}
	}
	last := r0
	o := newRunOracle(w, line)
	for _, c := range sched {
		if w.ended != "" || c.Idx >= len(w.bag) {
			break
		}
		o.before(c)
		kind := w.step(c.Idx, c.Elapsed)
		last = w.record()
		l := kind + " " + last
		h = fnvAdd(h, l+"\n")
		if verbose {
			trace = append(trace, l)
		}
		o.after(kind)
	}
	if check {
		o.finish()
	}
	return answerOf(w, h, last, trace)
}

// ---------------------------------------------------------------- oracle (the property's predicates on the real code)

var reInvalid = regexp.MustCompile(`invalid transition from "(\w+)" to "(\w+)"`)

func panicClass(msg string) string {
	if m := reInvalid.FindStringSubmatch(msg); m != nil {
		return "C05/invalid-transition/" + m[1] + "-to-" + m[2]
	}
	switch {
	case strings.Contains(msg, "can only merge segments if previous is complete"):
		return "C05/panic/merge-before-previous-complete"
	case strings.Contains(msg, "returned worker was already free"):
		return "C05/panic/worker-returned-twice"
	case strings.Contains(msg, "no free workers"):
		return "C05/panic/no-free-worker"
	case strings.Contains(msg, "index out of range"):
		return "C05/panic/index-out-of-range"
	case strings.Contains(msg, "nil pointer"):
		return "C05/panic/nil-dereference"
	}
	return "C05/panic/other"
}

func oracleInit(w *world, line string) {
	if w.ended == "panic:init" {
		report(panicClass(w.panicMsg)+"/at-init", "BuildParallelProcessor panicked: "+w.panicMsg, line)
	}
}

type runOracle struct {
	w        *world
	line     string
	prefix   string // the line without its schedule
	choices  []choice
	lastNext map[int]int // per stage: highest merged segment so far
	seen     map[string]bool
	failed   map[string]bool
	sink     map[string]bool // classes seen by the whole exploration (reported once per configuration)
	nJobs    int
}

func newRunOracle(w *world, line string) *runOracle {
	i := strings.Index(line, " sched=")
	return &runOracle{w: w, line: line, prefix: line[:i], lastNext: map[int]int{}, seen: map[string]bool{}, failed: map[string]bool{}}
}

// caseUpToNow: a replayable line whose schedule stops at the current step (minimal prefix witnessing the failure)
func (o *runOracle) caseUpToNow() string {
	return o.prefix + " sched=" + schedString(o.choices) + " v=0"
}

func (o *runOracle) fail(class, desc string) {
	if o.failed[class] {
		return
	}
	o.failed[class] = true
	if o.sink != nil {
		if o.sink[class] {
			return
		}
		o.sink[class] = true
	}
	report(class, desc, o.caseUpToNow())
}

func (o *runOracle) before(c choice) { o.choices = append(o.choices, c) }

func (o *runOracle) after(kind string) {
	w := o.w
	if w.ended == "panic" {
		o.fail(panicClass(w.panicMsg), "step "+kind+": "+w.panicMsg)
		return
	}
	if w.ended == "quit:err" {
		o.fail("C05/quit-with-error", "the scheduler quit with an error: "+w.panicMsg)
	}
	// job start => dependencies complete
	for ; o.nJobs < len(w.jobStarts); o.nJobs++ {
		js := w.jobStarts[o.nJobs]
		if len(js.Missing) > 0 {
			sub := "lower-stage-previous-segment-incomplete"
			if js.Unit.Stage < w.sched.Stages.VerifStageCount() {
				// the early return of dependenciesCompleted: the unit is the first segment of its own stage
				if first := stageFirst(w, js.Unit.Stage); js.Unit.Segment <= first {
					sub = "first-segment-of-stage"
				}
			}
			o.fail("C05/job-before-lower-stage-complete/"+sub,
				fmt.Sprintf("unit (segment %d, stage %d) handed to a worker while full snapshots %v do not exist (previous-segment units not complete: %v)",
					js.Unit.Segment, js.Unit.Stage, js.Missing, js.StateKO))
		}
		if js.Shift {
			o.fail("C05/stage-index-shift-when-store-stage-skipped",
				fmt.Sprintf("unit (segment %d, stage %d): Stages kept %d of the graph's stages; the worker was not given the graph's stage index %d of the Scheduled unit: tier2 runs the wrong stage, the requested output is never written",
					js.Unit.Segment, js.Unit.Stage, w.sched.Stages.VerifStageCount(), w.sched.Stages.VerifStageIdx(js.Unit.Stage)))
		}
		key := fmt.Sprintf("J%d,%d", js.Unit.Segment, js.Unit.Stage)
		if o.seen[key] {
			o.fail("C05/job-twice", "unit handed out twice: "+key)
		}
		o.seen[key] = true
	}
	// merges: each segment once, in block order per stage
	if strings.HasPrefix(kind, "mergeFinished") {
		u := w.mergeUnits[len(w.mergeUnits)-1]
		if w.mergeWasCompleted {
			o.fail("C05/merge-twice", fmt.Sprintf("stage %d: a merge of segment %d finished although the segment was already merged (Completed)", u.Stage, u.Segment))
		}
		if !w.mergeWasCompleted && u.Segment != w.mergeNextBefore {
			o.fail("C05/merge-out-of-order", fmt.Sprintf("stage %d: a merge of segment %d finished while the stage's next segment to merge is %d", u.Stage, u.Segment, w.mergeNextBefore))
		}
	}
}

func segOffset(w *world) int {
	var off int
	fmt.Sscanf(w.sched.Stages.VerifFingerprint(), "off=%d", &off)
	return off
}

// last segment whose output the client asked for
func lastReadSegment(w *world) int {
	if w.plan.ReadExecOut == nil {
		return -1
	}
	return int((w.plan.ReadExecOut.ExclusiveEndBlock - 1) / w.g.K)
}

func stageFirst(w *world, pos int) int {
	// first index of the stage's segmenter, read from the fingerprint "K[first..last]c=..."
	fp := w.sched.Stages.VerifFingerprint()
	parts := strings.Fields(fp)[2:]
	if pos >= len(parts) {
		return -1
	}
	var first, last int
	fmt.Sscanf(parts[pos][1:], "[%d..%d]", &first, &last)
	return first
}

func (o *runOracle) finish() {
	w := o.w
	switch {
	case w.ended == "" && len(w.bag) == 0:
		o.fail("C05/deadlock", "no command in flight and the scheduler has not quit: "+w.record())
	case w.ended == "quit:nil":
		// all stores merged up to the hand-off, all requested outputs written
		st := w.sched.Stages
		if !st.AllStoresCompleted() {
			o.fail("C05/final/stores-not-completed", "quit with store units not completed: "+w.record())
		}
		if w.plan.BuildStores != nil {
			// the snapshots FinalStoreMap is going to load must exist (checked on the files first: loading a missing
			// one goes through loadStore's retries and back-off, twelve seconds a time)
			end := w.plan.BuildStores.ExclusiveEndBlock
			missing := ""
			for j, ms := range w.stages {
				if w.kinds[j] != 'S' {
					continue
				}
				for _, m := range ms {
					if m.Init < end && !w.fullExists(m.Name, end) {
						missing = m.Name
					}
				}
			}
			if missing != "" {
				o.fail("C05/final/stores-not-at-handoff", fmt.Sprintf("quit without the full snapshot of store %s at the hand-off block %d: %s", missing, end, w.record()))
			} else if _, err := w.sched.FinalStoreMap(end); err != nil {
				o.fail("C05/final/stores-not-at-handoff", "FinalStoreMap(hand-off): "+err.Error())
			}
		}
		if w.plan.WriteExecOut != nil && w.plan.ReadExecOut != nil {
			seg := w.plan.ReadOutSegmenter(w.graph.ModulesInitBlocks()["x"])
			for i := seg.FirstIndex(); i <= seg.LastIndex(); i++ {
				r := seg.Range(i)
				if r != nil && !w.outputExists(r.StartBlock, r.ExclusiveEndBlock) {
					o.fail("C05/final/output-missing", fmt.Sprintf("quit without the output file %d-%d", r.StartBlock, r.ExclusiveEndBlock))
				}
			}
		}
	}
}

// ---------------------------------------------------------------- generators

func genConfig(r *common.Rng, maxStages, maxSegs int) genCfg {
	k := uint64(10)
	n := r.Range(1, maxStages)    // stages including the mapper stage
	segs := r.Range(1, maxSegs)   // segments of the global range
	base := uint64(r.Intn(3)) * k // first segment of the whole range
	if r.Chance(1, 3) {
		base += uint64(r.Range(1, 9)) // unaligned lowest initial block
	}
	hand := (base/k + uint64(segs)) * k
	g := genCfg{Prod: true, K: k, Hand: hand, Stop: hand}
	if n > 1 && r.Chance(1, 5) {
		g.Prod = false
	}
	sameInit := r.Chance(1, 2)
	pick := func() uint64 {
		if sameInit {
			return base
		}
		// somewhere in the range, often in a later segment
		v := base + uint64(r.Intn(int(hand-base)))
		if r.Chance(1, 2) {
			v = v / k * k
			if v < base {
				v = base
			}
		}
		return v
	}
	for j := 0; j < n-1; j++ {
		ms := []uint64{pick()}
		if r.Chance(1, 4) {
			ms = append(ms, pick())
		}
		g.Stores = append(g.Stores, ms)
	}
	if n > 1 {
		// make sure something starts at base
		g.Stores[r.Intn(len(g.Stores))][0] = base
	}
	g.MapInit = pick()
	if n == 1 || r.Chance(1, 2) {
		g.MapInit = base
	}
	if n > 1 && r.Chance(1, 12) {
		// every store starts at or after the hand-off: the planner builds no store (BuildStores == nil) and
		// NewStages keeps the mapper stage only
		for j := range g.Stores {
			for i := range g.Stores[j] {
				g.Stores[j][i] = hand + uint64(r.Intn(15))
			}
		}
		g.MapInit = base
		g.Prod = true
	}
	lowest := g.MapInit
	for _, s := range g.Stores {
		for _, m := range s {
			lowest = min(lowest, m)
		}
	}
	// start block: anywhere from the lowest initial block to the hand-off
	g.Start = lowest + uint64(r.Intn(int(hand-lowest)))
	if r.Chance(1, 3) {
		g.Start = lowest
	}
	if r.Chance(1, 6) {
		g.Stop = g.Hand - uint64(r.Intn(int(k)))
		if g.Stop <= g.Start {
			g.Stop = g.Hand
		}
	}
	// about one configuration in four asks for a block-index module as output: tier1 builds no cached-output walker and
	// the scheduler itself waits for the last stage (cmdShutdownWhenComplete / LastStageCompleted)
	if idx := r.Chance(1, 4); idx && (g.Prod || genDevIdx) {
		// exec.computeLowestInitBlock leaves block-index modules out: the planner refuses a start block below the lowest
		// initial block of the OTHER modules (the first streamable block, 0, when x is the only module)
		low := uint64(0)
		if len(g.Stores) > 0 {
			low = g.Stores[0][0]
			for _, st := range g.Stores {
				for _, m := range st {
					low = min(low, m)
				}
			}
		}
		if low < g.Hand {
			g.Idx = true
			g.Start = max(g.Start, low)
			if g.Stop <= g.Start {
				g.Stop = g.Hand
			}
		}
	}
	return g
}

// candidate files of a configuration: every snapshot a previous request could have left (positions are the
// real graph's: stage index, position of the module in the stage's last layer)
func candidateFiles(g genCfg) []fileSeed {
	graph, p, _, ok := planOf(g)
	if !ok {
		return nil
	}
	stages, kinds := graphStages(graph)
	var out []fileSeed
	k := g.K
	for j, st := range stages {
		for i, m := range st {
			init := m.Init
			if kinds[j] == 'S' {
				for e := (init/k + 1) * k; e <= g.Hand+k; e += k {
					out = append(out, fileSeed{'F', j, i, init, e})
					out = append(out, fileSeed{'P', j, i, max(init, e-k), e})
				}
			} else if p.WriteExecOut != nil {
				for e := (init/k + 1) * k; e <= g.Hand+k; e += k {
					out = append(out, fileSeed{'O', 0, 0, max(init, e-k), e})
				}
			}
		}
	}
	return out
}

// cleanFiles: what completed (or cleanly interrupted) earlier requests leave: no partial; per store every
// boundary snapshot up to some block; lower stages at least as far as upper stages; any outputs
func cleanFiles(r *common.Rng, g genCfg) []fileSeed {
	cand := candidateFiles(g)
	graph, _, _, ok := planOf(g)
	if !ok {
		return nil
	}
	stages, kinds := graphStages(graph)
	var out []fileSeed
	upto := g.Hand + g.K
	if r.Chance(1, 3) {
		upto = 0
	}
	for j := range stages {
		if kinds[j] != 'S' {
			continue
		}
		if upto > 0 {
			upto = uint64(r.Intn(int(upto/g.K)+1)) * g.K
		}
		for _, f := range cand {
			if f.Kind == 'F' && f.Stage == j && f.End <= upto {
				out = append(out, f)
			}
		}
	}
	for _, f := range cand {
		if f.Kind == 'O' && r.Chance(1, 3) {
			out = append(out, f)
		}
	}
	return out
}

// genFiles picks an initial cache state. kinds: 0 empty, 1 arbitrary subset, 2 "prefix" (what an interrupted
// earlier request leaves: per store a merged prefix + some partials + some outputs), 3 dense subset
func genFiles(r *common.Rng, g genCfg) []fileSeed {
	cand := candidateFiles(g)
	var out []fileSeed
	switch r.Intn(6) {
	case 0:
		return nil
	case 1, 2:
		den := r.Range(2, 6)
		for _, f := range cand {
			if r.Chance(1, den) {
				out = append(out, f)
			}
		}
	case 3:
		for _, f := range cand {
			if r.Chance(3, 4) {
				out = append(out, f)
			}
		}
	default:
		// prefix-shaped: lower stages are ahead of upper ones
		k := g.K
		ahead := uint64(1 << 60)
		graph, _, _, _ := planOf(g)
		stages, kinds := graphStages(graph)
		for j, st := range stages {
			if kinds[j] != 'S' {
				continue
			}
			for i, m := range st {
				init := m.Init
				upto := init + uint64(r.Intn(int(g.Hand-init+k)))
				if upto > ahead {
					upto = ahead
				}
				for _, f := range cand {
					if f.Stage == j && f.Mod == i && f.Kind == 'F' && f.End <= upto && r.Chance(4, 5) {
						out = append(out, f)
					}
					if f.Stage == j && f.Mod == i && f.Kind == 'P' && f.End > upto && f.End <= upto+2*k && r.Chance(1, 2) {
						out = append(out, f)
					}
				}
				if i == 0 {
					ahead = upto
				}
			}
		}
		for _, f := range cand {
			if f.Kind == 'O' && f.End <= ahead && r.Chance(1, 2) {
				out = append(out, f)
			}
		}
	}
	return out
}

// ---------------------------------------------------------------- random schedules

func randomRun(r *common.Rng, g genCfg, W int, seeds []fileSeed, bound int) {
	cfg, ok := cfgTokens(g, W)
	if !ok {
		out.Count("cfg:no-parallel")
		return
	}
	prefix := "RUN " + cfg + " fix=" + fixFlag + " files=" + seedsString(seeds)
	w := newWorld(g, W, seeds, nextDir())
	var cs []choice
	// ramp-up: time passes after a random number of scheduling attempts
	elapseAfter := r.Intn(4)
	nSched := 0
	eager := r.Chance(1, 2)
	for w.sched != nil && w.ended == "" && len(w.bag) > 0 && len(cs) < bound {
		idx := r.Intn(len(w.bag))
		if eager {
			for i, c := range w.bag {
				if cmdTag(c) == "B" {
					idx = i
					break
				}
			}
		}
		t := cmdTag(w.bag[idx])
		e := false
		if t == "N" || t == "T" {
			e = nSched >= elapseAfter
			nSched++
		}
		cs = append(cs, choice{idx, e})
		w.step(idx, e)
	}
	if w.sched != nil && w.ended == "" && len(w.bag) > 0 {
		report("C05/no-termination/bound", fmt.Sprintf("run still going after %d steps", bound), prefix+" sched="+schedString(cs)+" v=0")
	}
	w.close()
	emit(prefix+" sched="+schedString(cs)+" v=0", true)
}

// countIdx: distribution of the output module's kind over the emitted cases
func countIdx(line string) {
	if strings.Contains(line, " idx=1 ") {
		out.Count("idx:1(block-index output)")
	} else {
		out.Count("idx:0(map output)")
	}
}

func emit(line string, nontrivial bool) {
	ans, p := common.Recover(func() string { return runLine(line, true) })
	if p {
		report("C05/harness-panic", "harness panicked while replaying", line)
	}
	out.Case(line, ans, nontrivial)
	countIdx(line)
	toks := strings.Fields(ans)
	out.Count("end:" + kvOf(toks, "end"))
	steps, _ := strconv.Atoi(kvOf(toks, "steps"))
	switch {
	case steps == 0:
		out.Count("len:0")
	case steps < 50:
		out.Count("len:<50")
	case steps < 200:
		out.Count("len:<200")
	default:
		out.Count("len:>=200")
	}
}

// ---------------------------------------------------------------- exhaustive interleavings
//
// Exploration order (the same in lean/Driver/C05.lean `choicesOf`): commands that answer at once (batch,
// schedule-next-job, merge-not-ready, all-stores, download-segment, walker-completed, shutdown, quit) are executed
// first, oldest first; the explored nondeterminism is which LONG-RUNNING command answers next: a job, a merge, a
// file download, a timer.  The ramp-up clock is part of the explored state: it may elapse at the start or at any
// timer event.  Visited set on the full state (bag as a multiset of command kinds).

type explorer struct {
	g       genCfg
	W       int
	seeds   []fileSeed
	prefix  string
	visited map[string]int // state key -> id
	edges   [][]edge       // id -> outgoing
	term    []string       // id -> terminal kind ("" if not terminal)
	classes map[string]bool
	leaves  int
	budget  int
	trunc   bool
	initCls string
}
type edge struct {
	to   int
	poll bool // an edge that can repeat without progress: the walker found no file, or the ramp-up clock has not elapsed
}

// a runner = a world + the hash/oracle bookkeeping of the path that led to it
type runner struct {
	w    *world
	o    *runOracle
	h    uint64
	last string
}

func (e *explorer) newRunner(path []choice) *runner {
	w := newWorld(e.g, e.W, e.seeds, nextDir())
	r := &runner{w: w}
	if w.sched == nil {
		return r
	}
	r.last = w.record()
	r.h = fnvAdd(14695981039346656037, r.last+"\n")
	r.o = newRunOracle(w, e.prefix+" sched=-")
	r.o.sink = e.classes
	for _, c := range path {
		r.step(c)
	}
	return r
}

// silentRunner re-executes a path on a fresh world without computing state records (the real scheduler cannot
// be cloned; this is how the explorer backtracks); h/last are the hash chain values of the path's end.
func (e *explorer) silentRunner(path []choice, h uint64, last string) *runner {
	w := newWorld(e.g, e.W, e.seeds, nextDir())
	for _, c := range path {
		w.step(c.Idx, c.Elapsed)
	}
	r := &runner{w: w, h: h, last: last}
	r.o = newRunOracle(w, e.prefix+" sched=-")
	r.o.sink = e.classes
	r.o.choices = append([]choice{}, path...)
	r.o.nJobs = len(w.jobStarts)
	for _, js := range w.jobStarts {
		r.o.seen[fmt.Sprintf("J%d,%d", js.Unit.Segment, js.Unit.Stage)] = true
	}
	return r
}

func (r *runner) step(c choice) string {
	r.o.before(c)
	kind := r.w.step(c.Idx, c.Elapsed)
	r.last = r.w.record()
	r.h = fnvAdd(r.h, kind+" "+r.last+"\n")
	r.o.after(kind)
	return kind
}

func isImmediate(tag string) bool {
	return tag != "J" && tag != "G" && tag != "L" && tag != "T"
}

func stateKey(w *world, clock bool) string {
	if w.ended == "panic" {
		return "PANIC" // the real state after a panic is not meaningful: one terminal state
	}
	rec := w.record()
	i := strings.Index(rec, " bag=")
	j := strings.Index(rec, " full=")
	tags := []byte(rec[i+5 : j])
	sort.Slice(tags, func(a, b int) bool { return tags[a] < tags[b] })
	k := rec[:i] + " bag=" + string(tags) + rec[j:] + " end=" + w.ended
	if clock {
		k += " clk"
	}
	return k
}

func exploreChoices(w *world, clock bool) []choice {
	for i, c := range w.bag {
		if isImmediate(cmdTag(c)) {
			return []choice{{i, clock}}
		}
	}
	var cs []choice
	for i, c := range w.bag {
		if cmdTag(c) == "T" && !clock {
			cs = append(cs, choice{i, false}, choice{i, true})
		} else {
			cs = append(cs, choice{i, clock})
		}
	}
	return cs
}

func (e *explorer) explore(r *runner, clock bool, path []choice) int {
	w := r.w
	// unwrap every batch first (a batch hides its content from the state key)
	for w.ended == "" {
		bi := -1
		for i, c := range w.bag {
			if cmdTag(c) == "B" {
				bi = i
				break
			}
		}
		if bi < 0 {
			break
		}
		c := choice{bi, clock}
		r.step(c)
		path = append(append([]choice{}, path...), c)
	}
	key := stateKey(w, clock)
	if id, ok := e.visited[key]; ok {
		e.leaf(r, path)
		return id
	}
	id := len(e.edges)
	e.visited[key] = id
	e.edges = append(e.edges, nil)
	e.term = append(e.term, "")
	if w.ended != "" || len(w.bag) == 0 {
		e.term[id] = endString(w)
		e.leaf(r, path)
		return id
	}
	if len(e.visited) > e.budget {
		e.trunc = true
		e.leaf(r, path)
		return id
	}
	cs := exploreChoices(w, clock)
	h0, last0 := r.h, r.last
	for n, c := range cs {
		r2 := r
		if n > 0 {
			r2 = e.silentRunner(path, h0, last0) // the real scheduler cannot be cloned: re-execute the prefix
		}
		kind := r2.step(c)
		p2 := append(append([]choice{}, path...), c)
		poll := strings.HasPrefix(kind, "fileNotPresent") ||
			((strings.HasPrefix(kind, "schedNext>") || strings.HasPrefix(kind, "tickschedNext>")) && !c.Elapsed && strings.HasSuffix(kind, ">1") &&
				r2.w.ended == "" && strings.HasSuffix(r2.w.sched.WorkerPool.VerifStates(), "+r"))
		to := e.explore(r2, clock || c.Elapsed, p2)
		e.edges[id] = append(e.edges[id], edge{to, poll})
	}
	return id
}

// leaf: the path cannot be extended (terminal state, state already visited, budget): one RUN case for the
// trace-level correspondence, and the end-of-run predicates
func (e *explorer) leaf(r *runner, path []choice) {
	e.leaves++
	r.o.finish()
	line := e.prefix + " sched=" + schedString(path) + " v=0"
	out.Case(line, answerOf(r.w, r.h, r.last, nil), len(path) > 0)
	countIdx(line)
	out.Count("end:" + endString(r.w))
	r.w.close()
}

// graph predicates: from every state a quit state is reachable; no cycle without a polling edge
func (e *explorer) graphOracle() {
	n := len(e.edges)
	good := make([]bool, n)
	rev := make([][]int, n)
	for i, es := range e.edges {
		for _, ed := range es {
			rev[ed.to] = append(rev[ed.to], i)
		}
	}
	var q []int
	for i, t := range e.term {
		if t == "quit:nil" {
			good[i] = true
			q = append(q, i)
		}
	}
	for len(q) > 0 {
		x := q[0]
		q = q[1:]
		for _, p := range rev[x] {
			if !good[p] {
				good[p] = true
				q = append(q, p)
			}
		}
	}
	for i := range good {
		if !good[i] && e.term[i] == "" {
			e.classes["C05/no-termination/quit-unreachable"] = true
			report("C05/no-termination/quit-unreachable", "a reachable state from which the scheduler can never quit", e.exploreLine())
			break
		}
	}
	col := make([]byte, n)
	type fr struct{ v, i int }
	for s := 0; s < n; s++ {
		if col[s] != 0 {
			continue
		}
		st := []fr{{s, 0}}
		col[s] = 1
		for len(st) > 0 {
			f := &st[len(st)-1]
			if f.i < len(e.edges[f.v]) {
				ed := e.edges[f.v][f.i]
				f.i++
				if ed.poll {
					continue
				}
				if col[ed.to] == 1 {
					e.classes["C05/no-termination/cycle-without-poll"] = true
					report("C05/no-termination/cycle-without-poll", "a cycle of steps none of which is a poll (walker file not present / ramp-up not elapsed)", e.exploreLine())
					return
				}
				if col[ed.to] == 0 {
					col[ed.to] = 1
					st = append(st, fr{ed.to, 0})
				}
			} else {
				col[f.v] = 2
				st = st[:len(st)-1]
			}
		}
	}
}

func (e *explorer) exploreLine() string {
	return "EXPLORE" + strings.TrimPrefix(e.prefix, "RUN") + fmt.Sprintf(" budget=%d v=0", e.budget)
}

// exhaustive explores every order of the long-running events of one configuration on the REAL code and emits,
// besides one RUN case per maximal path, an EXPLORE case: number of states and classes of violated predicates,
// which the model's own explorer must reproduce.
func exhaustive(g genCfg, W int, seeds []fileSeed, budget int) {
	cfg, ok := cfgTokens(g, W)
	if !ok {
		out.Count("cfg:no-parallel")
		return
	}
	e := &explorer{g: g, W: W, seeds: seeds, prefix: "RUN " + cfg + " fix=" + fixFlag + " files=" + seedsString(seeds),
		visited: map[string]int{}, classes: map[string]bool{}, budget: budget}
	r := e.newRunner(nil)
	var ans string
	if r.w.sched == nil {
		cls := "C05/init-failed"
		if r.w.ended == "panic:init" {
			cls = panicClass(r.w.panicMsg) + "/at-init"
			report(cls, "BuildParallelProcessor panicked: "+r.w.panicMsg, e.prefix+" sched=- v=0")
		}
		r.w.close()
		ans = "states=0 trunc=false viol=" + cls
	} else {
		e.explore(r, false, nil)
		if W > 1 {
			e.explore(e.newRunner(nil), true, nil)
		}
		if !e.trunc {
			e.graphOracle()
		} else {
			out.Count("explore:truncated")
		}
		var cl []string
		for c := range e.classes {
			cl = append(cl, c)
		}
		sort.Strings(cl)
		v := "-"
		if len(cl) > 0 {
			v = strings.Join(cl, ",")
		}
		ans = fmt.Sprintf("states=%d trunc=%v viol=%s", len(e.edges), e.trunc, v)
	}
	out.Case(e.exploreLine(), ans, true)
	out.Count("explore:configs")
	if g.Idx {
		out.Count("explore:configs:idx=1")
	}
	out.Dist["explore:states"] += len(e.visited)
	out.Dist["explore:leaves"] += e.leaves
}

// ---------------------------------------------------------------- main

// witnesses of the defects F15, F19, F20 (found on the code before d60dce44/9da4cc23, by the harness or by the
// model's explorer): replayed on the code under test as regression cases — none of the oracle classes may fire.
var corpusRuns = []struct {
	g            string
	w            int
	files, sched string
}{
	// F19 three store stages + mapper on an empty cache: deadlock
	{"p:10:0/0/0:0:6:30:30", 2, "-", "0,0,0,0,0,0,0,0,0,2,2,1,2,2,2,2,5,6,6,0,6,6,6,0e,6e,7e,0e,6e,6e,6e,1e,5e,5e,5e,1e,4e,5e,5e,1e,2e,3e,3e,3e,3e,2e,2e,2e,3e,4e,2e,3e,3e,3e,3e,4e,2e,3e,3e,3e,3e,4e,0e,3e,3e,3e,0e,2e,2e,2e,0e,2e,2e,2e,2e,0e,1e,1e,1e,1e,2e,1e,1e,1e,1e,1e,0e,1e,1e,1e,0e,0e,0e,0e"},
	// F15 job of a stage's first segment before the lower stage is complete
	{"p:10:5/25:25:25:40:40", 1, "-", "0,2,0,3,0,3,0,0,2,2,1,2,3,4,3,4,4,1e,1e,3e,3e,3e,1e,2e,3e"},
	{"p:10:5/25:25:25:70:70", 1, "-", "0,1,2,2,2,3,2,6,0,1,2,2"},
	// F20 only the direct parent's previous segment was checked
	{"d:10:0/0:0:15:20:20", 2, "F0.0:0-20", "0,1,0,2,0,0,1,1,1e"},
	// F19 leftover partial: segment merged twice
	{"p:10:0:0:0:20:20", 1, "P0.0:0-10", "0,2,0,2,0,2,3,3,2,3,3,3,5,3,5,5,0,5,5,6,5,0,5,5,5,0e,0e"},
	// F19 panic: invalid transition Shadowed -> PartialPresent
	{"d:10:0/0/0:0:15:20:20", 2, "P2.0:10-20", "0,1,0,3,0,0,0,1,1,0,1,1,1,4,5,5,0e,1e,4e,4e,4e,1e,3e,3e,3e,1e,2e,3e,1e,1e,1e,1e,2e,1e,2e,0e,1e,1e,0e"},
	// F19 development mode, leftover partial: deadlock
	{"d:10:20/20:20:38:50:50", 1, "P1.0:20-30", "0,1,0,2,0,2,2,0,2,2,3,2,0,2,2,2,2,3,3,0e,0e,0e,1e,1e,1e,0e"},
	// F28 development mode, block-index output, stores to build: nil dereference in LastStageCompleted
	{"d:10:0:0:5:20:20:i", 1, "F0.0:0-10,F0.0:0-20", "0,2,0,0"},
	{"d:10:0:0:5:20:20:i", 1, "-", "0,1,0,1,0,1,1,0,1,2,2,3,3,0e,0e,2e,2e,2e,0e,1e,2e,0e,0e,0e,0e,0e"},
}

func main() {
	o := common.ParseFlags()
	out = common.NewOut(o.Out)
	// the dstore directories: a private temp dir on tmpfs when there is one (file creation dominates otherwise)
	fsRoot = filepath.Join(o.Out, "fs")
	if d, err := os.MkdirTemp("/dev/shm", "vh_c05-"); err == nil {
		fsRoot = d
	}
	defer os.RemoveAll(fsRoot)
	out.Rule = "a case = (module graph with 1..3 stages, 1..2 stores per stage, any initial blocks, the output module a map or - about one configuration in four, production mode - a block-index module (idx=1: no cached-output walker); request range of 1..4 segments (quick: up to 6 in random runs); production or development mode; 1..3 workers; any subset of the snapshot files a previous request can leave; a schedule = the order in which the in-flight commands are executed and their messages delivered, plus when the 4 s ramp-up elapses). Exhaustive over schedules (state-hash visited set, batch unwrapping first) for the small grids, seeded random otherwise. Non-trivial = the run performs at least one step; distinct by case line"
	defer out.Finish()
	_ = stage.UnitPending

	if lines := o.ReplayLines(); lines != nil {
		for _, l := range lines {
			l = withFix(l)
			if toks := strings.Fields(l); len(toks) > 0 && toks[0] == "EXPLORE" {
				W, _ := strconv.Atoi(kvOf(toks, "w"))
				b, _ := strconv.Atoi(kvOf(toks, "budget"))
				exhaustive(parseGen(kvOf(toks, "g")), W, parseSeeds(kvOf(toks, "files")), b)
				continue
			}
			emit(l, true)
		}
		return
	}
	rng := common.NewRng(o.Seed)
	nRandom, nExh, budget := 500, 40, 2500
	if o.Thorough() {
		nRandom, nExh, budget = 6000, 400, 120000
	}
	for _, kv := range strings.Split(o.Extra, ",") { // -extra random=N,exh=M,budget=B (experiments)
		if p := strings.SplitN(kv, "=", 2); len(p) == 2 {
			n, _ := strconv.Atoi(p[1])
			switch p[0] {
			case "random":
				nRandom = n
			case "exh":
				nExh = n
			case "budget":
				budget = n
			case "fix":
				fixFlag = p[1]
			case "devidx":
				genDevIdx = n != 0
			}
		}
	}

	if strings.HasPrefix(o.Extra, "genexplore=") { // experiment: print EXPLORE lines for the model's own explorer
		n, _ := strconv.Atoi(strings.Split(strings.TrimPrefix(o.Extra, "genexplore="), ",")[0])
		for i := 0; i < n; i++ {
			r := rng.Fork()
			g := genConfig(r, 3+i%2, 3)
			seeds := genFiles(r, g)
			if strings.Contains(o.Extra, "clean") {
				seeds = cleanFiles(r, g)
			}
			W := r.Range(1, 3)
			if cfg, ok := cfgTokens(g, W); ok {
				for _, fix := range []string{"0", "1"} {
					out.Case("EXPLORE "+cfg+" fix="+fix+" files="+seedsString(seeds)+" budget=150000 v=1", "-", false)
				}
			}
		}
		return
	}

	// corpus: F15's graph (DESIGN §9) and the repository's own test grid
	// (":i" = the same graph with a block-index module as output)
	corpus := []string{"p:10:5/25:25:25:70:70", "p:10:5/5:5:5:50:50", "p:10:5/5:5:30:90:90", "d:10:0/0:0:35:30:40", "p:10:0:0:0:30:30", "p:10:-:0:5:30:30",
		"p:10:0:0:0:30:30:i", "p:10:5/5:5:5:50:50:i", "p:10:-:0:5:30:30:i"}
	for _, c := range corpus {
		g := parseGen(c)
		for W := 1; W <= 3; W++ {
			for n := 0; n < 4; n++ {
				randomRun(rng.Fork(), g, W, nil, 4000)
			}
		}
	}

	// exhaustive corpus: F15's graph; a store stage whose partial was left by an interrupted request (F19: merged
	// twice); three store stages + mapper on an empty cache (F19: deadlock); the repository's test grid
	type exh struct {
		g     string
		w     int
		files string
	}
	corpusExh := []exh{
		{"p:10:5/25:25:25:40:40", 1, "-"},
		{"p:10:0:0:0:20:20", 1, "P0.0:0-10"},
		{"d:10:20/20:20:38:50:50", 1, "P1.0:20-30"},
		{"p:10:30:0:0:20:20", 1, "-"},              // the store starts after the hand-off: stage index shift (F21)
		{"d:10:0/0:0:15:20:20", 2, "F0.0:0-20"},    // F20
		{"d:10:0/0/0:0:15:20:20", 2, "P2.0:10-20"}, // F19: invalid transition Shadowed -> PartialPresent
		// block-index output: one store stage + the index stage, two segments (the last store merge may finish before or
		// after the last index job: the shutdown condition must be looked at again in both orders); no store at all; the
		// store cached, the index files missing; F15's graph
		{"p:10:0:0:0:20:20:i", 1, "-"},
		{"p:10:0:0:0:20:20:i", 2, "-"},
		{"p:10:-:0:5:30:30:i", 2, "-"},
		{"p:10:0:0:0:20:20:i", 1, "F0.0:0-10,F0.0:0-20"},
		{"p:10:5/25:25:25:40:40:i", 1, "-"},
	}
	if o.Thorough() {
		corpusExh = append(corpusExh, exh{"p:10:5/5:5:5:30:30", 1, "-"}, exh{"p:10:5/25:25:25:40:40", 2, "-"}, exh{"p:10:0/0/0:0:6:30:30", 2, "-"}, exh{"p:10:5/5:5:5:30:30", 2, "-"},
			exh{"p:10:5/5:5:5:50:50", 3, "-"})
	}
	for _, c := range corpusExh {
		exhaustive(parseGen(c.g), c.w, parseSeeds(c.files), 400000)
	}
	// witnesses found by the model's explorer, replayed on the real code (cheap): three store stages + mapper on an
	// empty cache deadlock (F19)
	for _, c := range corpusRuns {
		if cfg, ok := cfgTokens(parseGen(c.g), c.w); ok {
			emit("RUN "+cfg+" fix="+fixFlag+" files="+c.files+" sched="+c.sched+" v=0", true)
		}
	}
	for n := 0; n < nRandom; n++ {
		r := rng.Fork()
		g := genConfig(r, 3+n%3, 6)
		seeds := genFiles(r, g)
		if n%3 == 0 {
			seeds = cleanFiles(r, g)
		}
		randomRun(r, g, r.Range(1, 3), seeds, 6000)
		out.Count(fmt.Sprintf("cfg:stages=%d", len(g.Stores)+1))
		if g.Idx {
			out.Count("cfg:idx=1")
		}
	}
	for n := 0; n < nExh; n++ {
		r := rng.Fork()
		maxSegs := 2
		if o.Thorough() {
			maxSegs = 4
		} else if n%4 == 0 {
			maxSegs = 3
		}
		g := genConfig(r, 3, maxSegs)
		seeds := genFiles(r, g)
		if n%3 == 0 {
			seeds = cleanFiles(r, g)
		}
		exhaustive(g, r.Range(1, 3), seeds, budget)
	}
}

// vh_c14: correspondence cases + property oracle for C14 (execution stages respect every module dependency).
//
// Real code driven: manifest.ValidateModules (op V only), exec.NewOutputModuleGraph and the getters
// StagedUsedModules / UsedModules / ModulesInitBlocks / Stores / LowestInitBlock / LowestStoresInitBlock /
// SchedulableModuleNames / AncestorsFrom.
//
// Case line (read by lean/Driver/C14.lean):
//
//	<op> <output module> <production 0|1> <firstStreamableBlock> <modules>
//
// op V = ValidateModules then NewOutputModuleGraph (what tier1/tier2 do); op R = NewOutputModuleGraph alone
// (only generated when every map/store/filter reference resolves and names are distinct: with a dangling
// reference the real computeStages never returns).
// modules = "-" or ";"-separated name:kind:init:filter:inputs ; kind M|S|I ; filter "-" or a name ;
// inputs "-" or ","-separated s=<source type> m=<map> g=<store get> d=<store deltas> u=<store, mode unset> p=<params value>.
package main

import (
	"fmt"
	"os"
	"sort"
	"strings"
	"time"

	"github.com/streamingfast/substreams/manifest"
	pbsubstreams "github.com/streamingfast/substreams/pb/sf/substreams/v1"
	"github.com/streamingfast/substreams/pipeline/exec"

	"verifharness/common"
)

// ---------------------------------------------------------------- case representation

type Inp struct {
	K byte // s m g d u p
	V string
}
type Mod struct {
	Name   string
	Kind   byte // M S I
	Init   uint64
	Filter string // "" = none
	Inputs []Inp
}
type Case struct {
	Op   string
	Out  string
	Prod bool
	Fsb  uint64
	Mods []Mod
}

func (c *Case) clone() *Case {
	d := *c
	d.Mods = make([]Mod, len(c.Mods))
	for i, m := range c.Mods {
		d.Mods[i] = m
		d.Mods[i].Inputs = append([]Inp(nil), m.Inputs...)
	}
	return &d
}

func (c *Case) Line() string {
	var ms []string
	for _, m := range c.Mods {
		f := m.Filter
		if f == "" {
			f = "-"
		}
		ins := "-"
		if len(m.Inputs) > 0 {
			var p []string
			for _, in := range m.Inputs {
				p = append(p, string(in.K)+"="+in.V)
			}
			ins = strings.Join(p, ",")
		}
		ms = append(ms, fmt.Sprintf("%s:%c:%d:%s:%s", m.Name, m.Kind, m.Init, f, ins))
	}
	mods := "-"
	if len(ms) > 0 {
		mods = strings.Join(ms, ";")
	}
	prod := 0
	if c.Prod {
		prod = 1
	}
	return fmt.Sprintf("%s %s %d %d %s", c.Op, c.Out, prod, c.Fsb, mods)
}

func parseCase(line string) *Case {
	w := strings.Fields(line)
	if len(w) != 5 {
		panic("bad case line: " + line)
	}
	c := &Case{Op: w[0], Out: w[1], Prod: w[2] == "1", Fsb: common.Atou(w[3])}
	if w[4] == "-" {
		return c
	}
	for _, ms := range strings.Split(w[4], ";") {
		f := strings.Split(ms, ":")
		if len(f) != 5 {
			panic("bad module: " + ms)
		}
		m := Mod{Name: f[0], Kind: f[1][0], Init: common.Atou(f[2])}
		if f[3] != "-" {
			m.Filter = f[3]
		}
		if f[4] != "-" {
			for _, is := range strings.Split(f[4], ",") {
				kv := strings.SplitN(is, "=", 2)
				m.Inputs = append(m.Inputs, Inp{K: kv[0][0], V: kv[1]})
			}
		}
		c.Mods = append(c.Mods, m)
	}
	return c
}

func (c *Case) proto() *pbsubstreams.Modules {
	out := &pbsubstreams.Modules{Binaries: []*pbsubstreams.Binary{{Type: "wasm/rust-v1", Content: []byte("code")}}}
	for _, m := range c.Mods {
		pm := &pbsubstreams.Module{Name: m.Name, InitialBlock: m.Init, BinaryIndex: 0, BinaryEntrypoint: m.Name}
		switch m.Kind {
		case 'M':
			pm.Kind = &pbsubstreams.Module_KindMap_{KindMap: &pbsubstreams.Module_KindMap{OutputType: "proto:t"}}
		case 'S':
			pm.Kind = &pbsubstreams.Module_KindStore_{KindStore: &pbsubstreams.Module_KindStore{
				UpdatePolicy: pbsubstreams.Module_KindStore_UPDATE_POLICY_SET, ValueType: "string"}}
		case 'I':
			pm.Kind = &pbsubstreams.Module_KindBlockIndex_{KindBlockIndex: &pbsubstreams.Module_KindBlockIndex{OutputType: "proto:sf.substreams.index.v1.Keys"}}
		}
		for _, in := range m.Inputs {
			var pi *pbsubstreams.Module_Input
			switch in.K {
			case 's':
				pi = &pbsubstreams.Module_Input{Input: &pbsubstreams.Module_Input_Source_{Source: &pbsubstreams.Module_Input_Source{Type: in.V}}}
			case 'm':
				pi = &pbsubstreams.Module_Input{Input: &pbsubstreams.Module_Input_Map_{Map: &pbsubstreams.Module_Input_Map{ModuleName: in.V}}}
			case 'g', 'd', 'u':
				mode := pbsubstreams.Module_Input_Store_UNSET
				if in.K == 'g' {
					mode = pbsubstreams.Module_Input_Store_GET
				} else if in.K == 'd' {
					mode = pbsubstreams.Module_Input_Store_DELTAS
				}
				pi = &pbsubstreams.Module_Input{Input: &pbsubstreams.Module_Input_Store_{Store: &pbsubstreams.Module_Input_Store{ModuleName: in.V, Mode: mode}}}
			case 'p':
				pi = &pbsubstreams.Module_Input{Input: &pbsubstreams.Module_Input_Params_{Params: &pbsubstreams.Module_Input_Params{Value: in.V}}}
			default:
				panic("bad input kind")
			}
			pm.Inputs = append(pm.Inputs, pi)
		}
		if m.Filter != "" {
			pm.BlockFilter = &pbsubstreams.Module_BlockFilter{Module: m.Filter, Query: &pbsubstreams.Module_BlockFilter_QueryString{QueryString: "k"}}
		}
		out.Modules = append(out.Modules, pm)
	}
	return out
}

func (c *Case) index() map[string]int {
	idx := map[string]int{}
	for i, m := range c.Mods {
		if _, ok := idx[m.Name]; !ok {
			idx[m.Name] = i
		}
	}
	return idx
}

func (m *Mod) deps() []string {
	var d []string
	for _, in := range m.Inputs {
		switch in.K {
		case 'm', 'g', 'd', 'u':
			d = append(d, in.V)
		}
	}
	if m.Filter != "" {
		d = append(d, m.Filter)
	}
	return d
}

// ---------------------------------------------------------------- running the real code

type result struct {
	answer string
	graph  *exec.Graph
}

func classify(err error) string {
	s := err.Error()
	switch {
	case strings.Contains(s, "modules graph has a cycle"):
		return "err:cycle"
	case strings.Contains(s, "could not find module"):
		return "err:no-module"
	case strings.Contains(s, "smaller than first streamable block"):
		return "err:init-below-first"
	case strings.Contains(s, "has no input available at its initial block"):
		return "err:no-input"
	case strings.Contains(s, "cannot hash module"):
		return "err:hash"
	}
	return "err:other"
}

func sortedNames(idx map[string]int, names []string) string {
	if len(names) == 0 {
		return "-"
	}
	n := append([]string(nil), names...)
	sort.SliceStable(n, func(i, j int) bool {
		if idx[n[i]] != idx[n[j]] {
			return idx[n[i]] < idx[n[j]]
		}
		return n[i] < n[j]
	})
	return strings.Join(n, ",")
}
func modNames(ms []*pbsubstreams.Module) []string {
	var n []string
	for _, m := range ms {
		n = append(n, m.Name)
	}
	return n
}

func render(c *Case, g *exec.Graph) string {
	idx := c.index()
	used := modNames(g.UsedModules())
	usedSorted := strings.Split(sortedNames(idx, used), ",")
	ib := g.ModulesInitBlocks()
	var init []string
	if len(used) > 0 {
		for _, n := range usedSorted {
			init = append(init, fmt.Sprintf("%s:%d", n, ib[n]))
		}
	}
	var stages []string
	for _, st := range g.StagedUsedModules() {
		var layers []string
		for _, l := range st {
			layers = append(layers, sortedNames(idx, modNames(l)))
		}
		stages = append(stages, strings.Join(layers, "|"))
	}
	ls := "nil"
	if p := g.LowestStoresInitBlock(); p != nil {
		ls = fmt.Sprint(*p)
	}
	// computeSchedulableModules: the stores, then the output module when it is not a store (production mode)
	sched := g.SchedulableModuleNames()
	schedIdx := map[string]int{}
	for k, v := range idx {
		schedIdx[k] = v
	}
	if m := c.find(c.Out); m != nil && m.Kind != 'S' {
		schedIdx[c.Out] = len(c.Mods)
	}
	anc := "-"
	if len(sched) > 0 {
		var a []string
		for _, n := range strings.Split(sortedNames(schedIdx, sched), ",") {
			a = append(a, n+":"+sortedNames(idx, g.AncestorsFrom(n)))
		}
		anc = strings.Join(a, ";")
	}
	return fmt.Sprintf("ok used=%s init=%s stages=%s lowest=%d lowestStores=%s stores=%s sched=%s anc=%s",
		sortedNames(idx, used), strings.Join(init, ","), strings.Join(stages, "/"), g.LowestInitBlock(), ls,
		sortedNames(idx, modNames(g.Stores())), sortedNames(schedIdx, sched), anc)
}

func runReal(c *Case) (res result) {
	mods := c.proto()
	if c.Op == "V" {
		if err := manifest.ValidateModules(mods); err != nil {
			return result{answer: "err:validate"}
		}
	}
	g, err := exec.NewOutputModuleGraph(c.Out, c.Prod, mods, c.Fsb)
	if err != nil {
		return result{answer: classify(err)}
	}
	return result{answer: render(c, g), graph: g}
}

// runGuarded: panics become "panic"; a call that does not return within the deadline is a hang
// (termination is part of the property): the failure is recorded and the process stops, the spinning
// goroutine cannot be killed.
func runGuarded(c *Case, line string) result {
	ch := make(chan result, 1)
	go func() {
		defer func() {
			if r := recover(); r != nil {
				ch <- result{answer: "panic"}
			}
		}()
		ch <- runReal(c)
	}()
	select {
	case r := <-ch:
		return r
	case <-time.After(20 * time.Second):
		out.Case(line, "hang", true)
		out.Fail("C14/staging-does-not-terminate", "NewOutputModuleGraph did not return within 20 s", line)
		out.Finish()
		os.Exit(0)
	}
	return result{}
}

// ---------------------------------------------------------------- oracle: the property's predicates on the real output

// hasValueCollision: a source type or a params value equal to a module name (before the fix
// "a params value or source type spelled like a module name is not a graph dependency" NewModuleGraph
// turned it into an edge)
func hasValueCollision(c *Case) bool {
	idx := c.index()
	for _, m := range c.Mods {
		for _, in := range m.Inputs {
			if in.K == 's' || in.K == 'p' {
				if _, ok := idx[in.V]; ok && in.V != "" {
					return true
				}
			}
		}
	}
	return false
}

// closure of the output module under the true dependencies (map, store get/deltas, block filter)
func neededSet(c *Case) map[string]bool {
	idx := c.index()
	need := map[string]bool{}
	if _, ok := idx[c.Out]; !ok {
		return need
	}
	todo := []string{c.Out}
	need[c.Out] = true
	for len(todo) > 0 {
		n := todo[0]
		todo = todo[1:]
		for _, d := range c.Mods[idx[n]].deps() {
			if _, ok := idx[d]; ok && !need[d] {
				need[d] = true
				todo = append(todo, d)
			}
		}
	}
	return need
}

// a cycle among the true dependencies anywhere in the package (NewModuleGraph looks at all modules)
func hasTrueCycle(c *Case) bool {
	idx := c.index()
	state := map[string]int{}
	var visit func(n string) bool
	visit = func(n string) bool {
		switch state[n] {
		case 1:
			return true
		case 2:
			return false
		}
		state[n] = 1
		for _, d := range c.Mods[idx[n]].deps() {
			if _, ok := idx[d]; ok && visit(d) {
				return true
			}
		}
		state[n] = 2
		return false
	}
	for _, m := range c.Mods {
		if visit(m.Name) {
			return true
		}
	}
	return false
}

func resolvedInit(m *Mod, fsb uint64) uint64 {
	if m.Init == 0 {
		return fsb
	}
	return m.Init
}

// the rule of computeStages: some input exists at the module's initial block
func hasInputAtInit(c *Case, m *Mod, need map[string]bool) bool {
	idx := c.index()
	mine := resolvedInit(m, c.Fsb)
	for _, in := range m.Inputs {
		switch in.K {
		case 's':
			return true
		case 'p':
			if len(m.Inputs) == 1 {
				return true
			}
		case 'm', 'g', 'd', 'u':
			if j, ok := idx[in.V]; ok && resolvedInit(&c.Mods[j], c.Fsb) <= mine {
				return true
			}
		}
	}
	return false
}

func oracle(c *Case, r result, line string) {
	if witnessGroup != "" {
		line = witnessGroup
	}
	coll := hasValueCollision(c)
	fail := func(class, desc string) {
		if coll {
			// regression class of the fixed defect (finding recorded as `fixed`): any failure on a package
			// with such a collision is reported under it
			class = "input-value-taken-as-module-ref"
		}
		out.Fail("C14/"+class, desc, line)
	}
	idx := c.index()
	need := neededSet(c)
	if r.graph == nil {
		switch r.answer {
		case "err:validate":
			out.Count("oracle:validate-rejected")
			return
		case "err:cycle":
			if !hasTrueCycle(c) {
				fail("spurious-cycle", "cycle reported although map/store/filter dependencies are acyclic")
			}
		case "err:no-module":
			if _, ok := idx[c.Out]; ok {
				fail("spurious-no-module", "output module exists")
			}
		case "err:init-below-first":
			ok := false
			for n := range need {
				if m := c.Mods[idx[n]]; m.Init != 0 && m.Init < c.Fsb {
					ok = true
				}
			}
			if !ok {
				fail("spurious-init-below-first", "no needed module starts below the first streamable block")
			}
		case "err:no-input":
			ok := false
			for n := range need {
				if !hasInputAtInit(c, &c.Mods[idx[n]], need) {
					ok = true
				}
			}
			if !ok {
				fail("spurious-no-input", "every needed module has an input at its initial block")
			}
		default:
			fail("unexpected-outcome", "NewOutputModuleGraph answered "+r.answer)
		}
		return
	}
	g := r.graph
	// every needed module in exactly one layer, nothing else
	layerOf := map[string]int{}
	count := map[string]int{}
	li := 0
	stages := g.StagedUsedModules()
	for si, st := range stages {
		if len(st) == 0 {
			fail("empty-stage", fmt.Sprintf("stage %d has no layer", si))
		}
		for k, l := range st {
			if len(l) == 0 {
				fail("empty-layer", fmt.Sprintf("stage %d layer %d is empty", si, k))
				li++
				continue
			}
			stores := 0
			for _, m := range l {
				count[m.Name]++
				layerOf[m.Name] = li
				if m.GetKindStore() != nil {
					stores++
				}
			}
			if stores != 0 && stores != len(l) {
				fail("mixed-layer", fmt.Sprintf("stage %d layer %d mixes stores and non-stores", si, k))
			}
			isStore := stores == len(l)
			if isStore && k != len(st)-1 {
				fail("store-layer-not-closing-stage", fmt.Sprintf("stage %d: store layer %d is not the last layer", si, k))
			}
			if k == len(st)-1 && !isStore && si != len(stages)-1 {
				fail("stage-not-closed-by-store", fmt.Sprintf("stage %d ends with a non-store layer but is not the last stage", si))
			}
			li++
		}
	}
	for n := range need {
		if count[n] == 0 {
			fail("needed-module-missing", "module "+n+" is needed but in no layer")
		} else if count[n] > 1 {
			fail("module-in-two-layers", fmt.Sprintf("module %s appears %d times", n, count[n]))
		}
	}
	for n := range count {
		if !need[n] {
			fail("unneeded-module-staged", "module "+n+" is not an ancestor of "+c.Out+" but is staged")
		}
	}
	used := map[string]bool{}
	for _, m := range g.UsedModules() {
		used[m.Name] = true
	}
	for n := range used {
		if !need[n] {
			fail("unneeded-module-staged", "UsedModules contains "+n+", not an ancestor of "+c.Out)
		}
	}
	for n := range need {
		if !used[n] {
			fail("needed-module-missing", "UsedModules lacks "+n)
		}
	}
	// dependencies strictly earlier
	for n := range count {
		m := &c.Mods[idx[n]]
		for _, in := range m.Inputs {
			kind := map[byte]string{'m': "map", 'g': "store-get", 'd': "store-deltas", 'u': "store"}[in.K]
			if kind == "" {
				continue
			}
			if l, ok := layerOf[in.V]; !ok || l >= layerOf[n] {
				fail("dependency-not-earlier", fmt.Sprintf("%s reads %s %s which is not in an earlier layer", n, kind, in.V))
			}
		}
		if m.Filter != "" {
			if l, ok := layerOf[m.Filter]; !ok || l >= layerOf[n] {
				fail("dependency-not-earlier", fmt.Sprintf("%s is filtered by %s which is not in an earlier layer", n, m.Filter))
			}
		}
	}
	// the initial-block rule, on the init blocks the real code resolved
	ib := g.ModulesInitBlocks()
	for n := range count {
		m := &c.Mods[idx[n]]
		ok := false
		for _, in := range m.Inputs {
			switch in.K {
			case 's':
				ok = true
			case 'p':
				ok = ok || len(m.Inputs) == 1
			case 'm', 'g', 'd', 'u':
				ok = ok || ib[in.V] <= ib[n]
			}
		}
		if !ok {
			fail("no-input-at-initial-block", fmt.Sprintf("module %s accepted with initial block %d at which none of its inputs exists", n, ib[n]))
		}
		if ib[n] < c.Fsb {
			fail("init-below-first-streamable", fmt.Sprintf("module %s resolved initial block %d < %d", n, ib[n], c.Fsb))
		}
	}
	// Stores() = the stores among the needed modules
	st := map[string]bool{}
	for _, m := range g.Stores() {
		st[m.Name] = true
		if !need[m.Name] || m.GetKindStore() == nil {
			fail("stores-mismatch", "Stores() contains "+m.Name)
		}
	}
	for n := range need {
		if c.Mods[idx[n]].Kind == 'S' && !st[n] {
			fail("stores-mismatch", "Stores() lacks "+n)
		}
	}
}

// ---------------------------------------------------------------- generators

var out *common.Out

// when set, oracle failures are recorded with this (multi-line) replay text instead of the single case line
var witnessGroup string

var paramValues = []string{"", "k", "0x12ab", "foo.bar", "a&b", "n99"}

const blockType = "sf.test.v1.Block"
const clockType = "sf.substreams.v1.Clock"

var initChoices = []uint64{0, 0, 1, 2, 5, 10, 20, 100, 1 << 40}
var fsbChoices = []uint64{0, 0, 1, 1, 2, 5, 10}

// genDAG: modules in a hidden dependency order; names and list positions are shuffled so that neither
// the alphabet nor the list order agrees with the dependency order.
func genDAG(r *common.Rng, maxN int) *Case {
	n := r.Range(1, maxN)
	if r.Chance(1, 3) {
		n = r.Range((maxN+1)/2, maxN)
	}
	perm := func() []int {
		p := make([]int, n)
		for i := range p {
			p[i] = i
		}
		for i := n - 1; i > 0; i-- {
			j := r.Intn(i + 1)
			p[i], p[j] = p[j], p[i]
		}
		return p
	}
	namePerm := perm()
	ms := make([]Mod, n) // by hidden rank
	for k := 0; k < n; k++ {
		m := Mod{Name: fmt.Sprintf("n%d", namePerm[k])}
		switch x := r.Intn(100); {
		case x < 45:
			m.Kind = 'M'
		case x < 80:
			m.Kind = 'S'
		default:
			m.Kind = 'I'
		}
		var maps, stores, indexes []string
		for j := 0; j < k; j++ {
			switch ms[j].Kind {
			case 'M':
				maps = append(maps, ms[j].Name)
			case 'S':
				stores = append(stores, ms[j].Name)
			case 'I':
				indexes = append(indexes, ms[j].Name)
			}
		}
		switch x := r.Intn(100); {
		case x < 8: // params only
			m.Inputs = []Inp{{'p', paramValues[r.Intn(len(paramValues))]}}
			out.Count("gen:params-only")
		case x < 16: // clock only
			m.Inputs = []Inp{{'s', clockType}}
			out.Count("gen:clock-only")
		case x < 19: // no input at all
			out.Count("gen:no-input-module")
		default:
			if r.Chance(1, 4) {
				m.Inputs = append(m.Inputs, Inp{'p', paramValues[r.Intn(len(paramValues))]})
			}
			if r.Chance(3, 5) {
				m.Inputs = append(m.Inputs, Inp{'s', blockType})
			} else if r.Chance(1, 4) {
				m.Inputs = append(m.Inputs, Inp{'s', clockType})
			}
			nd := r.Intn(4)
			if nd == 0 && r.Chance(1, 2) {
				nd = r.Range(1, 3)
			}
			if len(m.Inputs) == 0 || (len(m.Inputs) == 1 && m.Inputs[0].K == 'p') {
				nd = r.Range(1, 3)
			}
			for d := 0; d < nd; d++ {
				if len(maps) > 0 && (len(stores) == 0 || r.Bool()) {
					m.Inputs = append(m.Inputs, Inp{'m', maps[r.Intn(len(maps))]})
				} else if len(stores) > 0 {
					k := byte('g')
					if r.Chance(2, 5) {
						k = 'd'
					}
					m.Inputs = append(m.Inputs, Inp{k, stores[r.Intn(len(stores))]})
				}
			}
			if len(m.Inputs) == 0 {
				m.Inputs = append(m.Inputs, Inp{'s', blockType})
			}
		}
		if len(indexes) > 0 && ((m.Kind != 'I' && r.Chance(3, 10)) || (m.Kind == 'I' && r.Chance(1, 10))) {
			m.Filter = indexes[r.Intn(len(indexes))]
			out.Count("gen:block-filter")
		}
		ms[k] = m
	}
	// initial blocks
	byName := map[string]*Mod{}
	for k := range ms {
		byName[ms[k].Name] = &ms[k]
	}
	switch mode := r.Intn(100); {
	case mode < 30:
		out.Count("gen:init-all-unset")
	case mode < 65: // consistent: a module starts where its latest dependency starts (or later)
		out.Count("gen:init-consistent")
		for k := range ms {
			var base uint64
			for _, d := range ms[k].deps() {
				if byName[d].Init > base {
					base = byName[d].Init
				}
			}
			if len(ms[k].deps()) == 0 || r.Chance(1, 4) {
				if c := initChoices[r.Intn(6)]; c > base {
					base = c
				}
			}
			ms[k].Init = base
		}
	default:
		out.Count("gen:init-arbitrary")
		for k := range ms {
			ms[k].Init = initChoices[r.Intn(len(initChoices))]
			if ms[k].Kind == 'I' && r.Chance(2, 3) {
				ms[k].Init = 0
			}
		}
	}
	c := &Case{Op: "V", Fsb: fsbChoices[r.Intn(len(fsbChoices))]}
	for _, k := range perm() {
		c.Mods = append(c.Mods, ms[k])
	}
	return c
}

func (c *Case) find(name string) *Mod {
	for i := range c.Mods {
		if c.Mods[i].Name == name {
			return &c.Mods[i]
		}
	}
	return nil
}

// ancestors by true dependencies (used to build back edges)
func (c *Case) needs(from string) map[string]bool {
	d := *c
	d.Out = from
	return neededSet(&d)
}

// mutate returns a malformed (or oddly formed) variant and whether op R may be run on it
// (names distinct and every reference resolves, hence NewOutputModuleGraph terminates).
func mutate(r *common.Rng, base *Case) (c *Case, kind string, rawSafe bool) {
	c = base.clone()
	n := len(c.Mods)
	pick := func() *Mod { return &c.Mods[r.Intn(n)] }
	refKind := func(target *Mod) byte {
		switch target.Kind {
		case 'S':
			if r.Bool() {
				return 'g'
			}
			return 'd'
		default:
			return 'm'
		}
	}
	switch r.Intn(14) {
	case 0: // back edge: an ancestor reads one of its descendants
		for try := 0; try < 20; try++ {
			m := pick()
			anc := c.needs(m.Name)
			var cand []string
			for a := range anc {
				if a != m.Name && c.find(a).Kind != 'I' {
					cand = append(cand, a)
				}
			}
			if len(cand) == 0 || m.Kind == 'I' {
				continue
			}
			sort.Strings(cand)
			a := c.find(cand[r.Intn(len(cand))])
			a.Inputs = append(a.Inputs, Inp{refKind(m), m.Name})
			return c, "cycle", true
		}
		m := pick()
		if m.Kind == 'I' {
			m.Kind = 'M'
		}
		m.Inputs = append(m.Inputs, Inp{refKind(m), m.Name})
		return c, "self-loop", true
	case 1:
		m := pick()
		if m.Kind == 'I' {
			m.Kind = 'M'
		}
		m.Inputs = append(m.Inputs, Inp{refKind(m), m.Name})
		return c, "self-loop", true
	case 2: // cycle through a block filter: index I reads map m, m is filtered by I
		var idxs, maps []*Mod
		for i := range c.Mods {
			if c.Mods[i].Kind == 'I' {
				idxs = append(idxs, &c.Mods[i])
			} else if c.Mods[i].Kind == 'M' {
				maps = append(maps, &c.Mods[i])
			}
		}
		if len(idxs) == 0 || len(maps) == 0 {
			return mutate(r, base)
		}
		ix, m := idxs[r.Intn(len(idxs))], maps[r.Intn(len(maps))]
		ix.Inputs = append(ix.Inputs, Inp{'m', m.Name})
		m.Filter = ix.Name
		return c, "filter-cycle", true
	case 3:
		m := pick()
		k := []byte{'m', 'g', 'd'}[r.Intn(3)]
		m.Inputs = append(m.Inputs, Inp{k, "ghost"})
		return c, "dangling-input", false
	case 4:
		pick().Filter = "ghost"
		return c, "dangling-filter", false
	case 5: // reference of the wrong kind
		m, t := pick(), pick()
		switch t.Kind {
		case 'S':
			m.Inputs = append(m.Inputs, Inp{'m', t.Name})
		case 'M':
			m.Inputs = append(m.Inputs, Inp{'g', t.Name})
		default:
			m.Inputs = append(m.Inputs, Inp{'m', t.Name})
		}
		return c, "wrong-kind-input", true
	case 6:
		m, t := pick(), pick()
		if t.Kind == 'I' {
			t.Kind = 'M'
		}
		m.Filter = t.Name
		return c, "filter-not-index", true
	case 7:
		m := pick()
		m.Inputs = append(m.Inputs, Inp{'p', "late"})
		return c, "params-not-first", true
	case 8:
		if n < 2 {
			return mutate(r, base)
		}
		c.Mods[r.Intn(n)].Name = c.Mods[r.Intn(n)].Name
		return c, "maybe-duplicate-name", false
	case 9:
		m := pick()
		m.Inputs = append(m.Inputs, Inp{'s', ""})
		return c, "empty-source-type", true
	case 10:
		for try := 0; try < 10; try++ {
			m := pick()
			for i := range m.Inputs {
				if m.Inputs[i].K == 'g' || m.Inputs[i].K == 'd' {
					m.Inputs[i].K = 'u'
					return c, "store-mode-unset", true
				}
			}
		}
		return mutate(r, base)
	case 11:
		c.Out = "nobody"
		return c, "unknown-output", true
	case 12: // filter starting after the filtered module
		for try := 0; try < 10; try++ {
			m := pick()
			if m.Filter != "" {
				c.find(m.Filter).Init = m.Init + uint64(r.Range(1, 9))
				return c, "filter-init-after-module", true
			}
		}
		return mutate(r, base)
	default:
		m := pick()
		m.Inputs = nil
		return c, "inputs-removed", true
	}
}

// collide: a params value or a source type that happens to be a module's name
func collide(r *common.Rng, base *Case) *Case {
	c := base.clone()
	n := len(c.Mods)
	m, t := &c.Mods[r.Intn(n)], &c.Mods[r.Intn(n)]
	if r.Chance(4, 5) {
		if len(m.Inputs) > 0 && m.Inputs[0].K == 'p' {
			m.Inputs[0].V = t.Name
		} else {
			m.Inputs = append([]Inp{{'p', t.Name}}, m.Inputs...)
		}
	} else {
		m.Inputs = append(m.Inputs, Inp{'s', t.Name})
	}
	return c
}

func emit(c *Case) {
	line := c.Line()
	r := runGuarded(c, line)
	nontrivial := false
	cls := r.answer
	if r.graph != nil {
		cls = "ok"
		layers := 0
		for _, st := range r.graph.StagedUsedModules() {
			layers += len(st)
		}
		nontrivial = layers >= 2
		out.Count(fmt.Sprintf("layers:%02d", layers))
		out.Count(fmt.Sprintf("stages:%02d", len(r.graph.StagedUsedModules())))
		out.Count(fmt.Sprintf("used:%02d", len(r.graph.UsedModules())))
		countFeatures(c, r.graph)
	} else if r.answer != "err:validate" && r.answer != "err:no-module" {
		nontrivial = true
	}
	out.Count("op:" + c.Op)
	out.Count("outcome:" + cls)
	out.Count(fmt.Sprintf("modules:%02d", len(c.Mods)))
	out.Case(line, r.answer, nontrivial)
	oracle(c, r, line)
}

// countFeatures: which situations of the layering loop the accepted case exercised
func countFeatures(c *Case, g *exec.Graph) {
	idx := c.index()
	layerOf := map[string]int{}
	var kinds []bool
	for _, st := range g.StagedUsedModules() {
		for _, l := range st {
			for _, m := range l {
				layerOf[m.Name] = len(kinds)
			}
			kinds = append(kinds, l.IsStoreLayer())
			if len(l) > 1 {
				out.Count("feature:layer-with-several-modules")
			}
		}
	}
	for i := 1; i < len(kinds); i++ {
		if kinds[i] == kinds[i-1] {
			out.Count("feature:iteration-that-placed-nothing")
			break
		}
	}
	if len(kinds) > 0 && !kinds[0] {
		out.Count("feature:first-iteration-placed-nothing")
	}
	seen := map[string]bool{}
	for n := range layerOf {
		m := &c.Mods[idx[n]]
		maxIn := -1
		for _, in := range m.Inputs {
			switch in.K {
			case 'm':
				seen["feature:map-input"] = true
			case 'g':
				seen["feature:store-get-input"] = true
			case 'd':
				seen["feature:store-deltas-input"] = true
			case 'u':
				seen["feature:store-unset-mode-input"] = true
			case 'p':
				if len(m.Inputs) == 1 {
					seen["feature:params-only-module"] = true
				} else {
					seen["feature:params-with-other-inputs"] = true
				}
			case 's':
				if len(m.Inputs) == 1 && in.V == clockType {
					seen["feature:clock-only-module"] = true
				}
			}
			if in.K == 'm' || in.K == 'g' || in.K == 'd' || in.K == 'u' {
				if layerOf[in.V] > maxIn {
					maxIn = layerOf[in.V]
				}
				if j, ok := idx[in.V]; ok && resolvedInit(&c.Mods[j], c.Fsb) > resolvedInit(m, c.Fsb) {
					seen["feature:input-starting-after-the-module"] = true
				}
			}
		}
		if m.Filter != "" {
			seen["feature:block-filter"] = true
			if layerOf[m.Filter] > maxIn+1 || (layerOf[m.Filter] > maxIn && kinds[layerOf[m.Filter]] == (m.Kind == 'S')) {
				seen["feature:placement-delayed-by-filter-only"] = true
			}
		}
		if m.Kind == 'I' && len(m.deps()) > 0 {
			seen["feature:index-module-with-dependencies"] = true
		}
	}
	for k := range seen {
		out.Count(k)
	}
}

// allOutputs: every output module, development and production mode
func allOutputs(c *Case) {
	for _, m := range c.Mods {
		for _, prod := range []bool{false, true} {
			d := c.clone()
			d.Out, d.Prod = m.Name, prod
			emit(d)
		}
	}
}

func main() {
	o := common.ParseFlags()
	out = common.NewOut(o.Out)
	out.Rule = "seeded random DAGs of 1..12 modules (maps, stores, block indexes; map, store-get, store-deltas, params, block and clock sources; block filters; params-only, clock-only and input-less modules; initial blocks unset / consistent / arbitrary; first streamable block 0..10), shuffled names and list order; every output module x production/development through ValidateModules+NewOutputModuleGraph (op V); a malformed stream (cycles, self loops, filter cycles, dangling and wrong-kind references, params not first, duplicate names, empty source type, unset store mode, unknown output, filter starting late, removed inputs, empty package) through op V and, when every reference resolves, also through NewOutputModuleGraph alone (op R); a stream where a params value / source type equals a module name (regression for the fixed NewModuleGraph defect). non-trivial = staging with >= 2 layers or an error raised by the graph code itself; distinct by case line"
	defer out.Finish()

	if lines := o.ReplayLines(); lines != nil {
		for _, l := range lines {
			emit(parseCase(l))
		}
		return
	}

	rng := common.NewRng(o.Seed)
	nDag, nBad, nColl := 2200, 2500, 400
	if o.Thorough() {
		nDag, nBad, nColl = 20000, 25000, 4000
	}
	// the fixed shapes of graph_test.go, rebuilt with real init blocks
	for _, fixed := range []string{
		"V e 1 0 a:S:0:-:s=B;b:M:0:-:s=B;c:M:0:-:s=B;d:S:0:-:s=B,g=a,m=b;e:M:0:-:s=B,g=d",
		"V h 1 1 a:M:0:-:s=B;b:M:0:-:s=B,m=a;c:S:0:-:s=B,m=b;d:M:0:-:s=B,g=c;e:S:0:-:s=B,m=d,d=g;f:M:0:-:s=B,m=a;g:S:0:-:s=B,m=f;h:M:0:-:s=B,g=e,m=a",
		"V f 0 5 a:I:0:-:s=B;b:M:5:-:s=B;d:M:5:a:s=B,g=c;c:S:5:-:s=B,m=b;e:M:7:-:s=B,d=c;f:M:9:a:s=B,m=e,g=g;g:S:7:-:s=B,m=d,m=e",
		"V x 1 0 -",
		"R x 0 0 -",
	} {
		c := parseCase(fixed)
		if len(c.Mods) == 0 {
			emit(c)
		} else {
			allOutputs(c)
		}
	}
	// minimal witnesses of the defect fixed in manifest/graph.go (a params value spelled like a module
	// name became a graph edge): an unneeded store staged in a stage of its own; a valid single-module
	// package refused as cyclic. They must pass now; on a regression they are recorded together so
	// that the replay file holds both.
	witness := []string{
		"V a 1 0 a:M:0:-:p=b,s=sf.test.v1.Block;b:S:0:-:s=sf.test.v1.Block",
		"V a 1 0 a:M:0:-:p=a,s=sf.test.v1.Block",
	}
	witnessGroup = strings.Join(witness, "\n")
	for _, w := range witness {
		emit(parseCase(w))
	}
	witnessGroup = ""
	for i := 0; i < nDag; i++ {
		allOutputs(genDAG(rng, 12))
	}
	for i := 0; i < nBad; i++ {
		base := genDAG(rng, 12)
		c, kind, rawSafe := mutate(rng, base)
		out.Count("malformed:" + kind)
		if c.Out == "" {
			c.Out = c.Mods[rng.Intn(len(c.Mods))].Name
		}
		c.Prod = rng.Bool()
		emit(c)
		if rawSafe {
			d := c.clone()
			d.Op = "R"
			emit(d)
		}
		if rng.Chance(1, 4) { // and from every output
			allOutputs(c)
		}
	}
	for i := 0; i < nColl; i++ {
		c := collide(rng, genDAG(rng, 8))
		out.Count("collision-stream")
		c.Out = c.Mods[rng.Intn(len(c.Mods))].Name
		c.Prod = rng.Bool()
		emit(c)
	}
}

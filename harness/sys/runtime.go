package sys

import (
	"context"
	"encoding/hex"
	"fmt"
	"os"
	"strconv"
	"strings"
	"sync"

	"google.golang.org/protobuf/proto"

	pbsubstreams "github.com/streamingfast/substreams/pb/sf/substreams/v1"
	"github.com/streamingfast/substreams/wasm"
)

// ---- the scripted runtime: registered as wasm runtime "verif"; the module "code" is the world's script text.

type inst struct{}

func (inst) Cleanup(context.Context) error { return nil }
func (inst) Close(context.Context) error   { return nil }

type scriptModule struct{ w *World }

func (scriptModule) NewInstance(context.Context) (wasm.Instance, error) { return inst{}, nil }
func (scriptModule) Close(context.Context) error                        { return nil }

func hexv(b []byte) string {
	if len(b) == 0 {
		return "-"
	}
	return hex.EncodeToString(b)
}

func acts(b, mod, rem uint64) bool {
	if mod == 0 {
		mod = 1
	}
	return b%mod == rem
}

// Salt: see Model/Forks.lean saltOf
func Salt(id string) uint64 {
	if id == "" {
		return 0
	}
	c := id[len(id)-1]
	if c >= 'a' && c <= 'z' {
		return 7 * uint64(c-'a')
	}
	return 0
}

// ExecHook lets the harness observe every real module execution (name, block); nil by default.
var ExecHook func(module string, block uint64)

func (sm scriptModule) ExecuteNewCall(ctx context.Context, call *wasm.Call, cached wasm.Instance, args []wasm.Argument, argValues map[string][]byte) (wasm.Instance, error) {
	m := sm.w.Mod(call.Entrypoint)
	if m == nil {
		return inst{}, fmt.Errorf("unknown script %q", call.Entrypoint)
	}
	b := call.Clock.Number
	// content number: blocks of branch x of a fork tree are named <num>x; branch a (every canonical chain) has salt 0
	e := b + Salt(call.Clock.Id)
	if ExecHook != nil {
		ExecHook(m.Name, b)
	}
	if err := hangErr(ctx, b); err != nil {
		return inst{}, err
	}
	if m.FailAt >= 0 && uint64(m.FailAt) == b {
		call.SetPanicError(fmt.Sprintf("scripted failure of %s at block %d", m.Name, b), "script", 1, 1)
		return inst{}, nil
	}
	// digest of the inputs, in declaration order; `extra` = total length of the present map inputs
	var sb strings.Builder
	sb.WriteString(m.Name + "@" + strconv.FormatUint(e, 10))
	var extra int64
	storeIdx := 0
	for _, in := range m.Inputs {
		sb.WriteByte('|')
		switch in.Kind {
		case "source":
			// the block itself: present in every legitimate execution (a module whose only input is an absent block
			// is not executed at all). Executed WITHOUT it — tier 2 skipped the block source although this module
			// needed it — a real module would compute on an empty block: here the digest says so and store scripts
			// shift their values, so that the difference is visible downstream
			if v, ok := argValues[BlockType]; ok && v != nil {
				sb.WriteByte('S')
			} else {
				sb.WriteString("S~")
				extra += 1000
			}
		case "clock":
			sb.WriteByte('C')
		case "params":
			sb.WriteString("P" + in.Ref)
		case "map":
			v, ok := argValues[in.Ref]
			if !ok || v == nil {
				sb.WriteString("M" + in.Ref + "=~")
			} else {
				sb.WriteString("M" + in.Ref + "=" + hexv(v))
				extra += int64(len(v))
			}
		case "get":
			ref := sm.w.Mod(in.Ref)
			sb.WriteString("G" + in.Ref + "{")
			for i, k := range ref.KeyUniverse() {
				if i > 0 {
					sb.WriteByte(',')
				}
				f, ff := call.DoGetFirst(storeIdx, k)
				a, fa := call.DoGetAt(storeIdx, 1, k)
				l, fl := call.DoGetLast(storeIdx, k)
				o := func(v []byte, found bool) string {
					if !found {
						return "~"
					}
					return hexv(v)
				}
				sb.WriteString(k + "=" + o(f, ff) + "/" + o(a, fa) + "/" + o(l, fl))
			}
			sb.WriteByte('}')
			storeIdx++
		case "deltas":
			v, ok := argValues[in.Ref]
			if !ok || v == nil {
				sb.WriteString("D" + in.Ref + "~")
			} else {
				ds := &pbsubstreams.StoreDeltas{}
				if err := proto.Unmarshal(v, ds); err != nil {
					return inst{}, err
				}
				sb.WriteString("D" + in.Ref + "[")
				for i, d := range ds.StoreDeltas {
					if i > 0 {
						sb.WriteByte(';')
					}
					op := map[pbsubstreams.StoreDelta_Operation]string{pbsubstreams.StoreDelta_CREATE: "C", pbsubstreams.StoreDelta_UPDATE: "U", pbsubstreams.StoreDelta_DELETE: "D"}[d.Operation]
					sb.WriteString(fmt.Sprintf("%s%d:%s:%s>%s", op, d.Ordinal, hexv([]byte(d.Key)), hexv(d.OldValue), hexv(d.NewValue)))
				}
				sb.WriteByte(']')
			}
		}
	}
	switch m.Kind {
	case "map":
		if acts(e, m.Every, m.Rem) {
			call.SetReturnValue([]byte(sb.String()))
		} else if m.SkipEmpty {
			call.SkipEmptyOutput()
		} else {
			call.SetReturnValue(nil)
		}
	case "index":
		var out []byte
		if acts(e, m.Every, m.Rem) {
			for _, k := range m.Keys {
				if acts(e, k.Mod, k.Rem) {
					out = append(out, 0x0a, byte(len(k.Key)))
					out = append(out, k.Key...)
				}
			}
		}
		call.SetReturnValue(out)
	case "store":
		if !acts(e, m.Every, m.Rem) {
			break
		}
		for _, o := range m.Ops {
			if !acts(e, o.Mod, o.Rem) {
				continue
			}
			key := o.KeyBase
			if o.KeyMod > 0 {
				key += strconv.FormatUint(e%o.KeyMod, 10)
			}
			v := o.ValMul*int64(e) + o.ValAdd + extra
			txt := strconv.FormatInt(v, 10)
			switch o.Kind {
			case "set":
				call.DoSet(o.Ord, key, []byte(txt))
			case "burst": // many keys in one block: key_0 … key_39
				for i := int64(0); i < 40; i++ {
					call.DoSet(o.Ord, key+"_"+strconv.FormatInt(i, 10), []byte(strconv.FormatInt(v+i, 10)))
				}
			case "sine":
				call.DoSetIfNotExists(o.Ord, key, []byte(txt))
			case "app":
				call.DoAppend(o.Ord, key, []byte(txt+";"))
			case "del":
				call.DoDeletePrefix(o.Ord, key)
			case "sum":
				switch m.VT {
				case "int64":
					call.DoAddInt64(o.Ord, key, v)
				case "bigint":
					call.DoAddBigInt(o.Ord, key, txt)
				case "bigdecimal":
					call.DoAddBigDecimal(o.Ord, key, txt+".5")
				}
			case "max":
				call.DoSetMaxInt64(o.Ord, key, v)
			case "min":
				call.DoSetMinInt64(o.Ord, key, v)
			case "ssumset":
				call.DoSetSumInt64(o.Ord, key, "set:"+txt)
			case "ssumsum":
				call.DoSetSumInt64(o.Ord, key, "sum:"+txt)
			}
		}
	}
	return inst{}, nil
}

var registerOnce sync.Once

// Register installs the scripted runtime (idempotent) and selects it.
func Register() {
	registerOnce.Do(func() {
		wasm.RegisterModuleFactory("verif", wasm.ModuleFactoryFunc(func(ctx context.Context, code []byte, typ string, reg *wasm.Registry) (wasm.Module, error) {
			return scriptModule{w: Decode(string(code))}, nil
		}))
	})
	os.Setenv("SUBSTREAMS_WASM_RUNTIME", "verif")
}

package sys

import (
	"fmt"
	"io"
	"sort"
	"strings"

	"github.com/streamingfast/bstream"
	"github.com/streamingfast/bstream/forkable"
	pbbstream "github.com/streamingfast/bstream/pb/sf/bstream/v1"
	"go.uber.org/zap"

	"github.com/streamingfast/substreams/pipeline"

	"verifharness/common"
)

// FBlock: a block of a fork tree as it arrives at the server.
type FBlock struct {
	Num    uint64
	ID     string
	Parent string
	Lib    uint64
}

// GenForkArrivals: blocks base, base+1 of branch "a" (canonical so far), then up to n arrivals that extend a tip or
// fork off an existing block at height >= base+1 (so every reorg junction is a block the resolver knows); each block
// may advance finality (its LibNum) to an ancestor height. Heights stay within base..base+maxH.
func GenForkArrivals(r *common.Rng, base uint64, n int, maxH uint64) []FBlock {
	parentID := ""
	if base > 0 {
		parentID = CanonID(base - 1)
	}
	libOf := func(n uint64) uint64 {
		if n == 0 {
			return 0
		}
		return n - 1
	}
	blocks := []FBlock{{base, CanonID(base), parentID, libOf(base)}, {base + 1, CanonID(base + 1), CanonID(base), base}}
	letters := "bcdefghijklmnop"
	nextLetter := 0
	used := map[string]bool{blocks[0].ID: true, blocks[1].ID: true}
	add := func(parent FBlock, newBranch bool) (FBlock, bool) {
		if parent.Num >= base+maxH {
			return FBlock{}, false
		}
		letter := parent.ID[len(parent.ID)-1:]
		id := fmt.Sprintf("%d%s", parent.Num+1, letter)
		if newBranch || used[id] {
			if nextLetter >= len(letters) {
				return FBlock{}, false
			}
			id = fmt.Sprintf("%d%c", parent.Num+1, letters[nextLetter])
			nextLetter++
		}
		used[id] = true
		lib := parent.Lib
		if r.Chance(1, 4) && parent.Num+1 >= base+3 { // finality progress: an ancestor 2..3 below
			if cand := parent.Num + 1 - uint64(r.Range(2, 3)); cand > lib {
				lib = cand
			}
		}
		nb := FBlock{parent.Num + 1, id, parent.ID, lib}
		blocks = append(blocks, nb)
		return nb, true
	}
	tipsOf := func() []FBlock {
		hasChild := map[string]bool{}
		for _, b := range blocks {
			hasChild[b.Parent] = true
		}
		var tips []FBlock
		for _, b := range blocks {
			if !hasChild[b.ID] {
				tips = append(tips, b)
			}
		}
		sort.Slice(tips, func(i, j int) bool { return tips[i].Num > tips[j].Num })
		return tips
	}
	// one time in three the tree starts with a ping-pong: branch b forks off base+1 and overtakes, branch a catches up
	// and overtakes (its undone blocks are applied a second time), branch b overtakes again (they are undone a second
	// time), …
	if r.Chance(1, 3) {
		a, b := blocks[1], blocks[1]
		first := true
		for round := 0; round < r.Range(2, 4); round++ {
			// b overtakes a
			for b.Num <= a.Num || first {
				nb, ok := add(b, first)
				first = false
				if !ok {
					break
				}
				b = nb
			}
			// a overtakes b
			for a.Num <= b.Num {
				na, ok := add(a, false)
				if !ok {
					break
				}
				a = na
			}
			if a.Num >= base+maxH || b.Num >= base+maxH {
				break
			}
		}
	}
	for len(blocks) < n+2 {
		tips := tipsOf()
		switch r.Intn(5) {
		case 0, 1: // extend the longest chain by 1-2 blocks
			p := tips[0]
			for k := 0; k < r.Range(1, 2); k++ {
				nb, ok := add(p, false)
				if !ok {
					break
				}
				p = nb
			}
		case 2: // a losing tip catches up and overtakes (flip-flop)
			if len(tips) > 1 {
				p := tips[1+r.Intn(len(tips)-1)]
				for p.Num <= tips[0].Num {
					nb, ok := add(p, false)
					if !ok {
						break
					}
					p = nb
				}
			}
		default: // a new branch off any known block at height >= base+1, sometimes long enough to win at once
			var cands []FBlock
			for _, b := range blocks {
				if b.Num >= base+1 && b.Num < base+maxH {
					cands = append(cands, b)
				}
			}
			if len(cands) == 0 {
				break
			}
			p := cands[r.Intn(len(cands))]
			nb, ok := add(p, true)
			if ok && r.Bool() {
				for nb.Num <= tips[0].Num {
					nb2, ok2 := add(nb, false)
					if !ok2 {
						break
					}
					nb = nb2
				}
			}
		}
		if nextLetter >= len(letters) && tipsOf()[0].Num >= base+maxH {
			break
		}
		if len(blocks) > n+40 {
			break
		}
	}
	return blocks
}

// RecStep: one step the real fork resolver handed to the real pipeline, with what the pipeline's stores held after it.
type RecStep struct {
	Kind   string // new newfinal undo stalled final
	Num    uint64
	ID     string
	JNum   uint64
	JID    string
	Stores string // canonical rendering of every store (content + SizeBytes) after the step
	Err    string
}

func (s RecStep) Encode() string {
	return fmt.Sprintf("%s:%d:%s:%d:%s", s.Kind, s.Num, hexv([]byte(s.ID)), s.JNum, hexv([]byte(s.JID)))
}

func stepName(st bstream.StepType) string {
	switch {
	case st == bstream.StepNewIrreversible:
		return "newfinal"
	case st == bstream.StepNew:
		return "new"
	case st == bstream.StepUndo:
		return "undo"
	case st == bstream.StepStalled:
		return "stalled"
	case st == bstream.StepIrreversible:
		return "final"
	}
	return fmt.Sprintf("step%d", st)
}

// RenderStores: every store of the pipeline, sorted by module name: name{hexkey=hexval,…}#SizeBytes
func RenderStores(p *pipeline.Pipeline, order []string) string {
	sm := p.GetStoreMap()
	if sm == nil {
		return ""
	}
	var parts []string
	for _, name := range order {
		s, ok := sm.Get(name)
		if !ok {
			continue
		}
		kv := map[string][]byte{}
		s.Iter(func(k string, v []byte) error { kv[k] = append([]byte{}, v...); return nil })
		keys := make([]string, 0, len(kv))
		for k := range kv {
			keys = append(keys, k)
		}
		sort.Strings(keys)
		var p2 []string
		for _, k := range keys {
			// a set_sum value's raw tag depends on whether a merge or a block wrote it last (known finding
			// C01/set_sum-tag-visible-in-deltas): normalised to "sum:"
			v := kv[k]
			if strings.HasPrefix(string(v), "set:") {
				v = append([]byte("sum:"), v[4:]...)
			}
			p2 = append(p2, hexv([]byte(k))+"="+hexv(v))
		}
		parts = append(parts, fmt.Sprintf("%s{%s}#%d", name, strings.Join(p2, ","), s.SizeBytes()))
	}
	return strings.Join(parts, ",")
}

// ForkFeed returns an Opts.Feed that sends the canonical chain [start, base) as final blocks and then the arrivals
// through the REAL bstream forkable (configured like hub.ForkableHub: HoldBlocksUntilLIB + kept final blocks), whose
// handler is the real pipeline wrapped by a recorder. storeOrder: store module names in world order.
func ForkFeed(arrivals []FBlock, base uint64, storeOrder []string, rec *[]RecStep, pipe **pipeline.Pipeline) func(h bstream.Handler, start, stop uint64, cursor string) error {
	return func(h bstream.Handler, start, stop uint64, cursor string) error {
		recorder := bstream.HandlerFunc(func(blk *pbbstream.Block, obj interface{}) error {
			st := obj.(bstream.Stepable)
			rs := RecStep{Kind: stepName(st.Step()), Num: blk.Number, ID: blk.Id}
			if j := st.ReorgJunctionBlock(); j != nil {
				rs.JNum, rs.JID = j.Num(), j.ID()
			}
			err := h.ProcessBlock(blk, obj)
			if err != nil {
				rs.Err = err.Error()
			}
			if *pipe != nil {
				rs.Stores = RenderStores(*pipe, storeOrder)
			}
			*rec = append(*rec, rs)
			return err
		})
		var initLib bstream.BlockRef
		if start > 0 {
			initLib = bstream.NewBlockRef(CanonID(start-1), start-1)
		} else {
			initLib = bstream.NewBlockRef("", 0)
		}
		fk := forkable.New(recorder, forkable.HoldBlocksUntilLIB(), forkable.WithKeptFinalBlocks(100), forkable.WithExclusiveLIB(initLib), forkable.WithLogger(zap.NewNop()))
		// canonical, already final part below the fork region
		for n := start; n < base; n++ {
			parent := ""
			if n > 0 {
				parent = CanonID(n - 1)
			}
			lib := n
			if lib > 0 {
				lib = n - 1
			}
			if err := fk.ProcessBlock(MkBlock(n, CanonID(n), parent, lib), nil); err != nil {
				return err
			}
		}
		for _, b := range arrivals {
			if b.Num < start {
				continue
			}
			if err := fk.ProcessBlock(MkBlock(b.Num, b.ID, b.Parent, b.Lib), nil); err != nil {
				return err
			}
		}
		return io.EOF
	}
}

// GenPingPongArrivals: finality stalls at `base`; branch a (base+1 … base+depth) and branch b (forking off base+1) overtake
// each other `rounds` times, each time by one more block, so that every block of both branches is applied, undone and
// applied again many times and several hundred block executions pile up between two final blocks.
func GenPingPongArrivals(r *common.Rng, base uint64, depth int, rounds int) []FBlock {
	parentID := ""
	if base > 0 {
		parentID = CanonID(base - 1)
	}
	lib := base
	if lib > 0 {
		lib--
	}
	blocks := []FBlock{{base, CanonID(base), parentID, lib}, {base + 1, CanonID(base + 1), CanonID(base), base}}
	a, b := blocks[1], blocks[1]
	ext := func(p FBlock, letter byte) FBlock {
		nb := FBlock{p.Num + 1, fmt.Sprintf("%d%c", p.Num+1, letter), p.ID, base}
		blocks = append(blocks, nb)
		return nb
	}
	// branch a first: depth blocks
	for i := 0; i < depth; i++ {
		a = ext(a, 'a')
	}
	for round := 0; round < rounds; round++ {
		for b.Num <= a.Num { // b overtakes a: everything of a above base+1 is undone, b's blocks (re)applied
			b = ext(b, 'b')
		}
		for a.Num <= b.Num {
			a = ext(a, 'a')
		}
	}
	if r.Bool() { // end on branch b
		for b.Num <= a.Num {
			b = ext(b, 'b')
		}
	}
	return blocks
}

// NormTag neutralises the one known difference between a squashed and a sequentially built set_sum store: the raw
// "set:" / "sum:" tag of a value (known finding C01/set_sum-tag-visible-in-deltas).  Digests render store values in
// hex and embed the digests of their map inputs in hex again, so the tag shows up as hex^k("set:") for k = 1, 2, …
// (a map reading a map reading the deltas is k = 2): every level up to 6 is mapped to the "sum:" spelling.
func NormTag(p []byte) []byte {
	s := string(p)
	for k := 6; k >= 1; k-- {
		a, b := "set:", "sum:"
		for i := 0; i < k; i++ {
			a, b = fmt.Sprintf("%x", a), fmt.Sprintf("%x", b)
		}
		s = strings.ReplaceAll(s, a, b)
	}
	return []byte(s)
}

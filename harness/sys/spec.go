// Package sys: an in-process substreams system for the system-level properties (C01, C03, C04, C07, C16):
// the REAL tier1 service, REAL in-process tier2 jobs, real hashes, real cache files on a local dstore, with a
// native scripted "wasm runtime" (module code is data: a small deterministic script per module, interpreted
// identically by this Go runtime and by lean/Model/Script.lean).
package sys

import (
	"fmt"
	"sort"
	"strconv"
	"strings"

	pbsubstreams "github.com/streamingfast/substreams/pb/sf/substreams/v1"
)

const BlockType = "sf.substreams.v1.test.Block"
const ClockType = "sf.substreams.v1.Clock"

type InputSpec struct {
	Kind string // source | clock | params | map | get | deltas
	Ref  string // module name (map/get/deltas) or params value
}

type OpTmpl struct {
	Kind    string // set sine app del sum max min ssum(set) ssum(sum): "ssumset" / "ssumsum"
	Ord     uint64
	KeyBase string
	KeyMod  uint64 // >0: key = KeyBase + (b % KeyMod)
	ValMul  int64
	ValAdd  int64
	Mod     uint64 // acts when b % Mod == Rem (Mod >= 1)
	Rem     uint64
}

type KeyTmpl struct {
	Key      string
	Mod, Rem uint64
}

type ModSpec struct {
	Name      string
	Kind      string // map | store | index
	Init      uint64
	Inputs    []InputSpec
	FilterMod string // block filter: index module name ("" = none)
	FilterQ   string
	Every     uint64 // (map/index/store) acts when b % Every == Rem
	Rem       uint64
	SkipEmpty bool  // map: when not acting, skip the output (intrinsic) instead of returning an empty one
	FailAt    int64 // block at which the module fails deterministically (-1: never)
	Policy    string
	VT        string
	Ops       []OpTmpl
	Keys      []KeyTmpl
}

type World struct{ Mods []ModSpec }

func (w *World) Mod(name string) *ModSpec {
	for i := range w.Mods {
		if w.Mods[i].Name == name {
			return &w.Mods[i]
		}
	}
	return nil
}

// ---- text encoding (protocol + "binary" content). No spaces.
// module: name:kind:init:inputs:filter:every/rem:skip:fail:policy/vt:ops:keys   modules joined by ';'
// inputs: kind=ref,…   filter: mod=hexquery | -   ops: kind/ord/keybase/keymod/mul/add/mod/rem,…   keys: key/mod/rem,…

func hx(s string) string {
	if s == "" {
		return "-"
	}
	return fmt.Sprintf("%x", s)
}
func unhx(s string) string {
	if s == "-" {
		return ""
	}
	b := make([]byte, len(s)/2)
	fmt.Sscanf(s, "%x", &b)
	return string(b)
}

func (w *World) Encode() string {
	var ms []string
	for _, m := range w.Mods {
		var ins []string
		for _, in := range m.Inputs {
			ins = append(ins, in.Kind+"="+hx(in.Ref))
		}
		filter := "-"
		if m.FilterMod != "" {
			filter = m.FilterMod + "=" + hx(m.FilterQ)
		}
		var ops []string
		for _, o := range m.Ops {
			ops = append(ops, fmt.Sprintf("%s/%d/%s/%d/%d/%d/%d/%d", o.Kind, o.Ord, hx(o.KeyBase), o.KeyMod, o.ValMul, o.ValAdd, o.Mod, o.Rem))
		}
		var keys []string
		for _, k := range m.Keys {
			keys = append(keys, fmt.Sprintf("%s/%d/%d", hx(k.Key), k.Mod, k.Rem))
		}
		j := func(l []string) string {
			if len(l) == 0 {
				return "-"
			}
			return strings.Join(l, ",")
		}
		skip := "0"
		if m.SkipEmpty {
			skip = "1"
		}
		pol := "-"
		if m.Kind == "store" {
			pol = m.Policy + "/" + m.VT
		}
		ms = append(ms, fmt.Sprintf("%s:%s:%d:%s:%s:%d/%d:%s:%d:%s:%s:%s", m.Name, m.Kind, m.Init, j(ins), filter, m.Every, m.Rem, skip, m.FailAt, pol, j(ops), j(keys)))
	}
	return strings.Join(ms, ";")
}

func Decode(s string) *World {
	w := &World{}
	for _, ms := range strings.Split(s, ";") {
		f := strings.Split(ms, ":")
		m := ModSpec{Name: f[0], Kind: f[1]}
		m.Init, _ = strconv.ParseUint(f[2], 10, 64)
		if f[3] != "-" {
			for _, in := range strings.Split(f[3], ",") {
				kv := strings.SplitN(in, "=", 2)
				m.Inputs = append(m.Inputs, InputSpec{kv[0], unhx(kv[1])})
			}
		}
		if f[4] != "-" {
			kv := strings.SplitN(f[4], "=", 2)
			m.FilterMod, m.FilterQ = kv[0], unhx(kv[1])
		}
		fmt.Sscanf(f[5], "%d/%d", &m.Every, &m.Rem)
		m.SkipEmpty = f[6] == "1"
		m.FailAt, _ = strconv.ParseInt(f[7], 10, 64)
		if f[8] != "-" {
			pv := strings.Split(f[8], "/")
			m.Policy, m.VT = pv[0], pv[1]
		}
		if f[9] != "-" {
			for _, os := range strings.Split(f[9], ",") {
				p := strings.Split(os, "/")
				o := OpTmpl{Kind: p[0], KeyBase: unhx(p[2])}
				o.Ord, _ = strconv.ParseUint(p[1], 10, 64)
				o.KeyMod, _ = strconv.ParseUint(p[3], 10, 64)
				o.ValMul, _ = strconv.ParseInt(p[4], 10, 64)
				o.ValAdd, _ = strconv.ParseInt(p[5], 10, 64)
				o.Mod, _ = strconv.ParseUint(p[6], 10, 64)
				o.Rem, _ = strconv.ParseUint(p[7], 10, 64)
				m.Ops = append(m.Ops, o)
			}
		}
		if f[10] != "-" {
			for _, ks := range strings.Split(f[10], ",") {
				p := strings.Split(ks, "/")
				k := KeyTmpl{Key: unhx(p[0])}
				k.Mod, _ = strconv.ParseUint(p[1], 10, 64)
				k.Rem, _ = strconv.ParseUint(p[2], 10, 64)
				m.Keys = append(m.Keys, k)
			}
		}
		w.Mods = append(w.Mods, m)
	}
	return w
}

// KeyUniverse: every key the store's templates can write, sorted.
func (m *ModSpec) KeyUniverse() []string {
	set := map[string]bool{}
	for _, o := range m.Ops {
		if o.Kind == "del" || o.Kind == "burst" {
			continue
		}
		if o.KeyMod == 0 {
			set[o.KeyBase] = true
		} else {
			for i := uint64(0); i < o.KeyMod; i++ {
				set[o.KeyBase+strconv.FormatUint(i, 10)] = true
			}
		}
	}
	var l []string
	for k := range set {
		l = append(l, k)
	}
	sort.Strings(l)
	return l
}

var policyPB = map[string]pbsubstreams.Module_KindStore_UpdatePolicy{
	"set": pbsubstreams.Module_KindStore_UPDATE_POLICY_SET, "sine": pbsubstreams.Module_KindStore_UPDATE_POLICY_SET_IF_NOT_EXISTS,
	"add": pbsubstreams.Module_KindStore_UPDATE_POLICY_ADD, "min": pbsubstreams.Module_KindStore_UPDATE_POLICY_MIN,
	"max": pbsubstreams.Module_KindStore_UPDATE_POLICY_MAX, "append": pbsubstreams.Module_KindStore_UPDATE_POLICY_APPEND,
	"setsum": pbsubstreams.Module_KindStore_UPDATE_POLICY_SET_SUM,
}

// Modules builds the real request package: one binary whose content is the world's script text.
func (w *World) Modules() *pbsubstreams.Modules {
	out := &pbsubstreams.Modules{Binaries: []*pbsubstreams.Binary{{Type: "wasm/rust-v1", Content: []byte(w.Encode())}}}
	for _, m := range w.Mods {
		pm := &pbsubstreams.Module{Name: m.Name, BinaryEntrypoint: m.Name, InitialBlock: m.Init}
		switch m.Kind {
		case "map":
			pm.Kind = &pbsubstreams.Module_KindMap_{KindMap: &pbsubstreams.Module_KindMap{OutputType: "proto:verif.Out"}}
			pm.Output = &pbsubstreams.Module_Output{Type: "proto:verif.Out"}
		case "index":
			pm.Kind = &pbsubstreams.Module_KindBlockIndex_{KindBlockIndex: &pbsubstreams.Module_KindBlockIndex{OutputType: "proto:sf.substreams.index.v1.Keys"}}
			pm.Output = &pbsubstreams.Module_Output{Type: "proto:sf.substreams.index.v1.Keys"}
		case "store":
			vt := m.VT
			if vt == "bytes" {
				vt = "string"
			}
			pm.Kind = &pbsubstreams.Module_KindStore_{KindStore: &pbsubstreams.Module_KindStore{UpdatePolicy: policyPB[m.Policy], ValueType: vt}}
		}
		for _, in := range m.Inputs {
			switch in.Kind {
			case "source":
				pm.Inputs = append(pm.Inputs, &pbsubstreams.Module_Input{Input: &pbsubstreams.Module_Input_Source_{Source: &pbsubstreams.Module_Input_Source{Type: BlockType}}})
			case "clock":
				pm.Inputs = append(pm.Inputs, &pbsubstreams.Module_Input{Input: &pbsubstreams.Module_Input_Source_{Source: &pbsubstreams.Module_Input_Source{Type: ClockType}}})
			case "params":
				pm.Inputs = append(pm.Inputs, &pbsubstreams.Module_Input{Input: &pbsubstreams.Module_Input_Params_{Params: &pbsubstreams.Module_Input_Params{Value: in.Ref}}})
			case "map":
				pm.Inputs = append(pm.Inputs, &pbsubstreams.Module_Input{Input: &pbsubstreams.Module_Input_Map_{Map: &pbsubstreams.Module_Input_Map{ModuleName: in.Ref}}})
			case "get":
				pm.Inputs = append(pm.Inputs, &pbsubstreams.Module_Input{Input: &pbsubstreams.Module_Input_Store_{Store: &pbsubstreams.Module_Input_Store{ModuleName: in.Ref, Mode: pbsubstreams.Module_Input_Store_GET}}})
			case "deltas":
				pm.Inputs = append(pm.Inputs, &pbsubstreams.Module_Input{Input: &pbsubstreams.Module_Input_Store_{Store: &pbsubstreams.Module_Input_Store{ModuleName: in.Ref, Mode: pbsubstreams.Module_Input_Store_DELTAS}}})
			}
		}
		if m.FilterMod != "" {
			pm.BlockFilter = &pbsubstreams.Module_BlockFilter{Module: m.FilterMod, Query: &pbsubstreams.Module_BlockFilter_QueryString{QueryString: m.FilterQ}}
		}
		out.Modules = append(out.Modules, pm)
	}
	return out
}

package sys

import (
	"context"
	"errors"
	"fmt"
	"io"
	"os"
	"path/filepath"
	"sort"
	"strconv"
	"strings"
	"sync"
	"time"

	"github.com/streamingfast/bstream"
	pbbstream "github.com/streamingfast/bstream/pb/sf/bstream/v1"
	"github.com/streamingfast/bstream/stream"
	"github.com/streamingfast/dmetering"
	"github.com/streamingfast/dstore"
	"github.com/streamingfast/shutter"
	"go.uber.org/zap"
	"google.golang.org/protobuf/types/known/anypb"
	"google.golang.org/protobuf/types/known/timestamppb"

	"github.com/streamingfast/substreams"
	"github.com/streamingfast/substreams/orchestrator/loop"
	"github.com/streamingfast/substreams/orchestrator/response"
	"github.com/streamingfast/substreams/orchestrator/stage"
	"github.com/streamingfast/substreams/orchestrator/work"
	pbssinternal "github.com/streamingfast/substreams/pb/sf/substreams/intern/v2"
	pbsubstreamsrpc "github.com/streamingfast/substreams/pb/sf/substreams/rpc/v2"
	pbsubstreamstest "github.com/streamingfast/substreams/pb/sf/substreams/v1/test"
	"github.com/streamingfast/substreams/pipeline"
	"github.com/streamingfast/substreams/pipeline/exec"
	"github.com/streamingfast/substreams/reqctx"
	"github.com/streamingfast/substreams/service"
	"github.com/streamingfast/substreams/service/config"

	"verifharness/common"
)

// ---------------------------------------------------------------- chain

// BlockID of the canonical chain: "<num>a".
func CanonID(n uint64) string { return strconv.FormatUint(n, 10) + "a" }

func MkBlock(num uint64, id, parent string, lib uint64) *pbbstream.Block {
	pl, _ := anypb.New(&pbsubstreamstest.Block{Id: id, Number: num})
	return &pbbstream.Block{Id: id, Number: num, ParentId: parent, ParentNum: num - 1, Timestamp: timestamppb.New(time.Unix(int64(1000+num), 0)), LibNum: lib, Payload: pl}
}

// ---------------------------------------------------------------- request / result

type Req struct {
	Prod      bool
	Start     int64
	Stop      uint64
	Final     uint64 // most recent final block known to the server; HasFinal=false: unknown
	FinalOnly bool   // final_blocks_only request
	NoFinal   bool
	Head      uint64 // chain head (blocks above Final are New, not final)
	Seg       uint64
	Workers   int
	Cursor    string
	Output    string
}

type Msg struct {
	Kind      string // session | data | undo
	Num       uint64
	ID        string
	Payload   []byte
	HasOutput bool
	Cursor    string
	FinalH    uint64
	Start     uint64 // session
	Handoff   uint64
}

type Fault struct {
	Job   int    // n-th job started (0-based, in start order)
	Where string // before | mid | drain (the block source ends cleanly half-way) | after | abort (no retry: the request ends) | exec (real worker only)
}

type Opts struct {
	Sched          *common.Rng                                                             // job completion order (nil: as they come)
	Faults         []Fault                                                                 // transient faults injected into tier2 jobs (each costs one retry inside the worker)
	Feed           func(h bstream.Handler, start uint64, stop uint64, cursor string) error // custom linear feed (forks); nil = canonical chain
	OnPipe         func(p *pipeline.Pipeline)
	Timeout        time.Duration
	NoTimeoutRetry bool // do not re-run a request that hit its time-out
	RealWorker     bool // the REAL work.RemoteWorker (retry loop, back-off sleeps, error classification) in front of in-process tier-2 jobs (realworker.go); Faults may then also be "exec"
	WaitRamp       bool // let the first job take >4 s so that the real worker pool leaves its ramp-up phase (workers > 1 really run in parallel)
}

type Result struct {
	Msgs        []Msg
	Err         error
	Jobs        []string // "stage/segment" in start order
	Retries     int
	SlowRetries int      // the request hit its time-out once and completed (or not) on the second, four times longer attempt
	Tier2Codes  []string // real worker: the status codes tier 2 answered for failed attempts
	Pipe        *pipeline.Pipeline
}

func (r *Result) ErrClass() string {
	if r.Err == nil {
		return "ok"
	}
	m := r.Err.Error()
	switch {
	case strings.Contains(m, "wasm execution failed deterministically"), strings.Contains(m, "scripted failure"):
		return "module-failure"
	case errors.Is(r.Err, context.DeadlineExceeded), strings.Contains(m, "timeout"):
		return "timeout"
	case strings.Contains(m, "invalid"), strings.Contains(m, "InvalidArgument"):
		return "invalid-arg"
	}
	return "error"
}

// ---------------------------------------------------------------- plumbing

type nopEmitter struct{}

func (nopEmitter) Emit(context.Context, dmetering.Event) {}
func (nopEmitter) Shutdown(error)                        {}

type stepObj struct {
	cursor *bstream.Cursor
	step   bstream.StepType
}

func (o *stepObj) Cursor() *bstream.Cursor              { return o.cursor }
func (o *stepObj) Step() bstream.StepType               { return o.step }
func (o *stepObj) FinalBlockHeight() uint64             { return o.cursor.LIB.Num() }
func (o *stepObj) ReorgJunctionBlock() bstream.BlockRef { return nil }

type feeder struct {
	*shutter.Shutter
	run func() error
}

func (f *feeder) Run(context.Context) error { return f.run() }

// canonFeed sends the canonical chain [start, …] to h: blocks <= final as new+irreversible, blocks above as new.
func canonFeed(h bstream.Handler, start, stop, final, head uint64, failAt int64) error {
	return canonFeedF(h, start, stop, final, head, failAt, false)
}

// canonFeedF: finalOnly = the block source of a final_blocks_only request: blocks that are final when the stream starts
// arrive as new+irreversible, the others arrive once they are final, with the bare IRREVERSIBLE step
func canonFeedF(h bstream.Handler, start, stop, final, head uint64, failAt int64, finalOnly bool) error {
	for n := start; n <= head; n++ {
		if stop != 0 && n > stop { // the pipeline answers io.EOF at the stop block; never feed far beyond
			break
		}
		if failAt >= 0 && uint64(failAt) == n {
			return fmt.Errorf("transient stream failure at block %d", n)
		}
		lib := final
		step := bstream.StepNew
		if n <= final {
			lib = n
			step = bstream.StepNewIrreversible
		} else if finalOnly {
			lib = n
			step = bstream.StepIrreversible
		}
		parent := ""
		if n > 0 {
			parent = CanonID(n - 1)
		}
		blk := MkBlock(n, CanonID(n), parent, lib)
		cur := &bstream.Cursor{Step: step, Block: bstream.NewBlockRef(CanonID(n), n), LIB: bstream.NewBlockRef(CanonID(lib), lib), HeadBlock: bstream.NewBlockRef(CanonID(head), head)}
		if err := h.ProcessBlock(blk, &stepObj{cursor: cur, step: step}); err != nil {
			return err
		}
	}
	return io.EOF
}

func NewCtx() context.Context {
	lg := zap.NewNop()
	if os.Getenv("VERIF_LOG") != "" { // debugging aid
		lg, _ = zap.NewDevelopment()
	}
	c := reqctx.WithLogger(context.Background(), lg)
	c = dmetering.WithBytesMeter(c)
	c = reqctx.WithEmitter(c, nopEmitter{})
	return c
}

// ---------------------------------------------------------------- the in-process worker (tier2 job runner)

type sysWorker struct {
	id   int
	env  *runEnv
	self work.Worker
}

type runEnv struct {
	dir        string
	req        Req
	opts       Opts
	mu         sync.Mutex
	jobs       []string
	retries    int
	nStart     int
	waiting    []chan struct{}
	running    int
	t0         time.Time
	attempts   map[int]int
	tier2Codes []string
}

func (w *sysWorker) ID() string { return strconv.Itoa(w.id) }

func (w *sysWorker) Work(ctx context.Context, unit stage.Unit, startBlock uint64, moduleNames []string, upstream *response.Stream) loop.Cmd {
	env := w.env
	ctx = reqctx.WithTier2RequestParameters(ctx, reqctx.Tier2RequestParameters{
		BlockType:            BlockType,
		StateBundleSize:      env.req.Seg,
		StateStoreURL:        filepath.Join(env.dir, "store"),
		StateStoreDefaultTag: "tag",
		MergedBlockStoreURL:  filepath.Join(env.dir, "merged"),
		MeteringConfig:       "null://",
		FirstStreamableBlock: bstream.GetProtocolFirstStreamableBlock,
	})
	request := work.NewRequest(ctx, reqctx.Details(ctx), unit.Stage, startBlock)
	env.mu.Lock()
	jobIdx := env.nStart
	env.nStart++
	env.jobs = append(env.jobs, fmt.Sprintf("%d/%d", unit.Stage, unit.Segment))
	env.running++
	env.mu.Unlock()
	return func() loop.Msg {
		defer func() { env.mu.Lock(); env.running--; env.mu.Unlock() }()
		if env.opts.WaitRamp && jobIdx == 0 {
			if d := 4200*time.Millisecond - time.Since(env.t0); d > 0 {
				time.Sleep(d)
			}
		}
		// transient faults of this job: each one costs an attempt, like RemoteWorker's retry loop
		var faults []string
		for _, f := range env.opts.Faults {
			if f.Job == jobIdx {
				faults = append(faults, f.Where)
			}
		}
		for attempt := 0; ; attempt++ {
			where := ""
			if attempt < len(faults) {
				where = faults[attempt]
			}
			if where == "before" {
				env.mu.Lock()
				env.retries++
				env.mu.Unlock()
				continue
			}
			failAt := int64(-1)
			if where == "abort" { // the request is cancelled while this job is half-way: its block stream breaks, nothing is retried
				err := runTier2(ctx, env, request, int64(request.StartBlock()+(request.StopBlock()-request.StartBlock())/2))
				if err == nil {
					err = fmt.Errorf("aborted")
				}
				return work.MsgJobFailed{Unit: unit, Error: fmt.Errorf("request aborted: %w", err)}
			}
			jctx := ctx
			if where == "mid" || where == "drain" {
				failAt = int64(request.StartBlock() + (request.StopBlock()-request.StartBlock())/2)
			}
			if where == "drain" {
				jctx = withDrain(ctx)
			}
			err := runTier2(jctx, env, request, failAt)
			if err != nil && errors.Is(err, exec.ErrWasmDeterministicExec) {
				return work.MsgJobFailed{Unit: unit, Error: err} // deterministic: not retried
			}
			if err != nil || where == "after" {
				if attempt > 50 {
					return work.MsgJobFailed{Unit: unit, Error: fmt.Errorf("too many attempts: %w", err)}
				}
				env.mu.Lock()
				env.retries++
				env.mu.Unlock()
				continue
			}
			break
		}
		env.waitTurn()
		return work.MsgJobSucceeded{Unit: unit, Worker: w}
	}
}

// waitTurn: completed jobs report in an order chosen by the seeded schedule
func (env *runEnv) waitTurn() {
	if env.opts.Sched == nil {
		return
	}
	ch := make(chan struct{})
	env.mu.Lock()
	env.waiting = append(env.waiting, ch)
	env.mu.Unlock()
	go func() {
		time.Sleep(3 * time.Millisecond) // let the other running jobs reach the barrier
		env.mu.Lock()
		defer env.mu.Unlock()
		if len(env.waiting) == 0 {
			return
		}
		i := env.opts.Sched.Intn(len(env.waiting))
		c := env.waiting[i]
		env.waiting = append(env.waiting[:i], env.waiting[i+1:]...)
		close(c)
	}()
	<-ch
}

func runTier2(ctx context.Context, env *runEnv, request *pbssinternal.ProcessRangeRequest, failAt int64) error {
	return runTier2T(ctx, env, request, failAt, 0)
}

// runTier2T: blockTimeout 0 keeps the test constructor's zero value (the per-block context is then born expired, which
// nothing observes as long as no wasm call fails with a non-panic error)
func runTier2T(ctx context.Context, env *runEnv, request *pbssinternal.ProcessRangeRequest, failAt int64, blockTimeout time.Duration) error {
	sf := func(ctx context.Context, h bstream.Handler, startBlockNum int64, stopBlockNum uint64, cursor string, finalBlocksOnly bool, cursorIsTarget bool, logger *zap.Logger, extraOpts ...stream.Option) (service.Streamable, error) {
		return &feeder{Shutter: shutter.New(), run: func() error {
			// tier2 only reads final blocks: everything below the hand-off is final
			err := canonFeed(h, uint64(startBlockNum), stopBlockNum, ^uint64(0)>>1, stopBlockNum, failAt)
			if drainKey(ctx) && err != nil && strings.Contains(err.Error(), "transient stream failure") {
				return nil // "drain": the block source ends CLEANLY before the stop block (a source shut down without error)
			}
			return err
		}}, nil
	}
	svc := service.TestNewServiceTier2(false, sf)
	if blockTimeout > 0 {
		service.WithBlockExecutionTimeout(blockTimeout)(svc)
	}
	return svc.TestProcessRange(ctx, request, func(substreams.ResponseFromAnyTier) error { return nil })
}

type drainCtxKey struct{}

// withDrain marks a tier-2 job whose block source is to end cleanly (nil, not an error) at the failing block
func withDrain(ctx context.Context) context.Context { return context.WithValue(ctx, drainCtxKey{}, true) }
func drainKey(ctx context.Context) bool             { v, _ := ctx.Value(drainCtxKey{}).(bool); return v }

// ---------------------------------------------------------------- Run: one request against the real tier1 service

var runMu sync.Mutex

func init() { bstream.GetProtocolFirstStreamableBlock = 0 }

// Run: one request against the real tier1 service.  A request that does not finish within its time-out is run a
// second time — on a copy of the cache as it was BEFORE the first attempt, with the same seeded completion order and
// four times the time-out: a machine under load (sixteen scenarios in parallel, other checks running) can stretch a
// 50 ms request beyond any fixed bound, while a request that is stuck because of the files it found and the order in
// which its jobs answered is stuck again.  Only the second time-out is reported as "the request does not finish"; the
// first is counted (Result.SlowRetries).
func (w *World) Run(dir string, req Req, opts Opts) *Result {
	retry := !opts.NoTimeoutRetry && opts.Feed == nil // (a custom feed records into the caller's state: never re-run)
	pre := dir + ".pre"
	var sched common.Rng
	if retry {
		os.RemoveAll(pre)
		copyTree(dir, pre)
		if opts.Sched != nil {
			sched = *opts.Sched
		}
	}
	r := w.runOnce(dir, req, opts)
	if retry {
		defer os.RemoveAll(pre)
	}
	if r.Err != nil && r.ErrClass() == "timeout" && retry {
		o2 := opts
		if o2.Timeout == 0 {
			o2.Timeout = 60 * time.Second
		}
		o2.Timeout *= 4
		if opts.Sched != nil {
			s2 := sched
			o2.Sched = &s2
		}
		time.Sleep(50 * time.Millisecond) // stragglers of the first attempt (asynchronous snapshot writes)
		os.RemoveAll(dir)
		copyTree(pre, dir)
		r2 := w.runOnce(dir, req, o2)
		r2.SlowRetries = r.SlowRetries + 1
		r2.Jobs = append(append([]string{}, r.Jobs...), r2.Jobs...)
		return r2
	}
	return r
}

// copyTree copies a directory tree (nothing when src does not exist)
func copyTree(src, dst string) {
	filepath.Walk(src, func(p string, info os.FileInfo, err error) error {
		if err != nil {
			return nil
		}
		rel, _ := filepath.Rel(src, p)
		if info.IsDir() {
			os.MkdirAll(filepath.Join(dst, rel), 0o755)
			return nil
		}
		if b, err := os.ReadFile(p); err == nil {
			os.MkdirAll(filepath.Dir(filepath.Join(dst, rel)), 0o755)
			os.WriteFile(filepath.Join(dst, rel), b, 0o644)
		}
		return nil
	})
}

func (w *World) runOnce(dir string, req Req, opts Opts) *Result {
	Register()
	os.MkdirAll(filepath.Join(dir, "merged"), 0o755)
	base, err := dstore.NewStore(filepath.Join(dir, "store"), "zst", "zstd", true)
	if err != nil {
		panic(err)
	}
	env := &runEnv{dir: dir, req: req, opts: opts, t0: time.Now()}
	res := &Result{}
	nWorker := 0
	wf := func(_ *zap.Logger) work.Worker {
		nWorker++
		return &sysWorker{id: nWorker, env: env}
	}
	sf := func(ctx context.Context, h bstream.Handler, startBlockNum int64, stopBlockNum uint64, cursor string, finalBlocksOnly bool, cursorIsTarget bool, logger *zap.Logger, extraOpts ...stream.Option) (service.Streamable, error) {
		if p, ok := h.(*pipeline.Pipeline); ok {
			res.Pipe = p
		} else if lb, ok := h.(*service.LiveBackFiller); ok {
			if p, ok := lb.NextHandler.(*pipeline.Pipeline); ok {
				res.Pipe = p
			}
		}
		if opts.OnPipe != nil && res.Pipe != nil {
			opts.OnPipe(res.Pipe)
		}
		start := uint64(startBlockNum)
		if cursor != "" && !cursorIsTarget {
			if c, err := bstream.CursorFromOpaque(cursor); err == nil {
				start = c.Block.Num() + 1
			}
		}
		return &feeder{Shutter: shutter.New(), run: func() error {
			if opts.Feed != nil {
				return opts.Feed(h, start, stopBlockNum, cursor)
			}
			return canonFeedF(h, start, stopBlockNum, req.Final, req.Head, -1, finalBlocksOnly)
		}}, nil
	}
	if opts.RealWorker {
		wf = realWorkerFactory(env)
	}
	workers := req.Workers
	if workers < 1 {
		workers = 1
	}
	rc := config.RuntimeConfig{SegmentSize: req.Seg, DefaultParallelSubrequests: uint64(workers), BaseObjectStore: base, DefaultCacheTag: "tag", MaxJobsAhead: 10, WorkerFactory: wf}
	final := req.Final
	svc := service.TestNewService(rc, final, sf)
	if req.NoFinal {
		svc = service.TestNewService(rc, 0, sf)
	}
	preq := &pbsubstreamsrpc.Request{StartBlockNum: req.Start, StopBlockNum: req.Stop, StartCursor: req.Cursor, Modules: w.Modules(), OutputModule: req.Output, ProductionMode: req.Prod, FinalBlocksOnly: req.FinalOnly}
	ctx := NewCtx()
	if opts.RealWorker {
		ctx = reqctx.WithTier2RequestParameters(ctx, reqctx.Tier2RequestParameters{
			BlockType: BlockType, StateBundleSize: req.Seg, StateStoreURL: filepath.Join(dir, "store"), StateStoreDefaultTag: "tag",
			MergedBlockStoreURL: filepath.Join(dir, "merged"), MeteringConfig: "null://", FirstStreamableBlock: bstream.GetProtocolFirstStreamableBlock,
		})
	}
	to := opts.Timeout
	if to == 0 {
		to = 60 * time.Second
	}
	ctx, cancel := context.WithTimeout(ctx, to)
	defer cancel()
	var mu sync.Mutex
	done := make(chan error, 1)
	go func() {
		defer func() {
			if r := recover(); r != nil {
				done <- fmt.Errorf("PANIC: %v", r)
			}
		}()
		done <- svc.TestBlocks(ctx, false, preq, func(rr substreams.ResponseFromAnyTier) error {
			resp, ok := rr.(*pbsubstreamsrpc.Response)
			if !ok {
				return nil
			}
			mu.Lock()
			defer mu.Unlock()
			switch m := resp.Message.(type) {
			case *pbsubstreamsrpc.Response_Session:
				res.Msgs = append(res.Msgs, Msg{Kind: "session", Start: m.Session.ResolvedStartBlock, Handoff: m.Session.LinearHandoffBlock})
			case *pbsubstreamsrpc.Response_BlockScopedData:
				d := m.BlockScopedData
				mm := Msg{Kind: "data", Num: d.Clock.Number, ID: d.Clock.Id, Cursor: d.Cursor, FinalH: d.FinalBlockHeight}
				if d.Output != nil && d.Output.MapOutput != nil {
					mm.Payload = d.Output.MapOutput.Value
					mm.HasOutput = true
				}
				res.Msgs = append(res.Msgs, mm)
			case *pbsubstreamsrpc.Response_BlockUndoSignal:
				u := m.BlockUndoSignal
				res.Msgs = append(res.Msgs, Msg{Kind: "undo", Num: u.LastValidBlock.Number, ID: u.LastValidBlock.Id, Cursor: u.LastValidCursor})
			}
			return nil
		})
	}()
	select {
	case err = <-done:
	case <-time.After(to + 5*time.Second):
		err = fmt.Errorf("timeout: request did not finish")
	}
	if err != nil && (errors.Is(err, io.EOF)) {
		err = nil
	}
	res.Err = err
	env.mu.Lock()
	res.Jobs, res.Retries, res.Tier2Codes = env.jobs, env.retries, env.tier2Codes
	env.mu.Unlock()
	return res
}

// Stream renders the data messages canonically: num:id=payloadhex (empty payloads as "-"), undo signals as U<num>:<id>.
func (r *Result) Stream(nonEmptyOnly bool) string {
	var p []string
	for _, m := range r.Msgs {
		switch m.Kind {
		case "data":
			if nonEmptyOnly && len(m.Payload) == 0 {
				continue
			}
			p = append(p, fmt.Sprintf("%d:%s=%s", m.Num, m.ID, hexv(m.Payload)))
		case "undo":
			p = append(p, fmt.Sprintf("U%d:%s", m.Num, m.ID))
		}
	}
	return strings.Join(p, " ")
}

// Files lists the cache files under dir/store (relative paths, sorted).
func Files(dir string) []string {
	var out []string
	root := filepath.Join(dir, "store")
	filepath.Walk(root, func(p string, info os.FileInfo, err error) error {
		if err == nil && !info.IsDir() {
			rel, _ := filepath.Rel(root, p)
			out = append(out, rel)
		}
		return nil
	})
	sort.Strings(out)
	return out
}

package sys

import (
	"context"
	"fmt"
	"io"
	"os"
	"path/filepath"
	"sort"
	"strings"

	"github.com/RoaringBitmap/roaring/roaring64"
	"github.com/streamingfast/dstore"
	"google.golang.org/protobuf/proto"

	pboutput "github.com/streamingfast/substreams/storage/execout/pb"
	pbindexes "github.com/streamingfast/substreams/storage/index/pb"
	"github.com/streamingfast/substreams/storage/store/marshaller"
)

// DecodeFile renders a cache file canonically (content, not bytes: map iteration order and compression framing
// are not part of a file's meaning). rel is the path relative to dir/store, with its .zst suffix.
func DecodeFile(dir, rel string) string {
	ds, err := dstore.NewStore(filepath.Join(dir, "store"), "zst", "zstd", false)
	if err != nil {
		return "ERR:" + err.Error()
	}
	name := strings.TrimSuffix(rel, ".zst")
	rd, err := ds.OpenObject(context.Background(), name)
	if err != nil {
		return "ERR:open:" + err.Error()
	}
	defer rd.Close()
	data, err := io.ReadAll(rd)
	if err != nil {
		return "ERR:read:" + err.Error()
	}
	switch {
	case strings.HasSuffix(name, ".kv"), strings.HasSuffix(name, ".partial"):
		sd, size, err := marshaller.Default().Unmarshal(data)
		if err != nil {
			return "ERR:unmarshal:" + err.Error()
		}
		keys := make([]string, 0, len(sd.Kv))
		for k := range sd.Kv {
			keys = append(keys, k)
		}
		sort.Strings(keys)
		var p []string
		for _, k := range keys {
			p = append(p, fmt.Sprintf("%x=%x", k, sd.Kv[k]))
		}
		dp := append([]string{}, sd.DeletePrefixes...)
		sort.Strings(dp)
		return fmt.Sprintf("kv{%s} dp%q size=%d", strings.Join(p, ","), dp, size)
	case strings.HasSuffix(name, ".output"):
		m := &pboutput.Map{}
		if err := proto.Unmarshal(data, m); err != nil {
			return "ERR:unmarshal:" + err.Error()
		}
		type it struct {
			num uint64
			s   string
		}
		var items []it
		for id, v := range m.Kv {
			items = append(items, it{v.BlockNum, fmt.Sprintf("%d:%s:%s=%x", v.BlockNum, id, v.BlockId, v.Payload)})
		}
		sort.Slice(items, func(i, j int) bool { return items[i].s < items[j].s })
		var p []string
		for _, i := range items {
			p = append(p, i.s)
		}
		return "out{" + strings.Join(p, " ") + "}"
	case strings.HasSuffix(name, ".index"):
		m := &pbindexes.Map{}
		if err := proto.Unmarshal(data, m); err != nil {
			return "ERR:unmarshal:" + err.Error()
		}
		keys := make([]string, 0, len(m.Indexes))
		for k := range m.Indexes {
			keys = append(keys, k)
		}
		sort.Strings(keys)
		var p []string
		for _, k := range keys {
			bm := roaring64.New()
			bm.FromUnsafeBytes(m.Indexes[k])
			p = append(p, fmt.Sprintf("%x=%v", k, bm.ToArray()))
		}
		return "idx{" + strings.Join(p, ",") + "}"
	}
	return fmt.Sprintf("raw(%d bytes)", len(data))
}

// CopyFiles copies the given cache files (paths relative to dir/store) from one world dir to another.
func CopyFiles(from, to string, rels []string) {
	for _, rel := range rels {
		src := filepath.Join(from, "store", rel)
		dst := filepath.Join(to, "store", rel)
		os.MkdirAll(filepath.Dir(dst), 0o755)
		b, err := os.ReadFile(src)
		if err != nil {
			continue // merged partial files are deleted asynchronously by the squasher
		}
		if err := os.WriteFile(dst, b, 0o644); err != nil {
			panic(err)
		}
	}
}

// CacheFiles: the files that matter (the .spkg package dump is not a cache file).
func CacheFiles(dir string) []string {
	var out []string
	for _, f := range Files(dir) {
		if strings.HasSuffix(f, ".spkg.zst") {
			continue
		}
		out = append(out, f)
	}
	return out
}

package sys

// The REAL orchestrator/work.RemoteWorker (its retry loop, derr.RetryContext with the real back-off sleeps, its
// classification of stream errors) in front of in-process tier-2 jobs: the client it is given runs the real
// Tier2Service.processRange and converts the job's error with the real toGRPCError (hook service.VerifToGRPCError),
// which is what a gRPC transport hands to stream.Recv() (assumption recorded in checks/C16.json).
//
// Faults (Opts.Faults, one per attempt of the chosen job):
//   before  the call is refused: ProcessRange returns Unavailable
//   mid     the block stream of the job breaks halfway
//   after   the job wrote its files, the stream is dropped before the clean end (Unavailable)
//   exec    the execution of one block is interrupted by tier 2's per-block execution timeout while a module waits
//           (a blocked extension call): the wasm call returns an error and its context is done

import (
	"context"
	"fmt"
	"io"
	"sync"
	"time"

	"github.com/streamingfast/substreams/client"
	"github.com/streamingfast/substreams/orchestrator/loop"
	"github.com/streamingfast/substreams/orchestrator/response"
	"github.com/streamingfast/substreams/orchestrator/stage"
	"github.com/streamingfast/substreams/orchestrator/work"
	pbssinternal "github.com/streamingfast/substreams/pb/sf/substreams/intern/v2"
	"github.com/streamingfast/substreams/service"
	"go.uber.org/zap"
	"google.golang.org/grpc"
	"google.golang.org/grpc/codes"
	"google.golang.org/grpc/metadata"
	"google.golang.org/grpc/status"
)

type jobKey struct{}
type hangKey struct{}

// hang: the first module execution at Block waits for its context to end and fails like the extension glue does
type hang struct {
	Block uint64
	once  sync.Once
	hit   bool
}

// HangErr is consulted by the scripted runtime at every execution.
func hangErr(ctx context.Context, block uint64) error {
	h, _ := ctx.Value(hangKey{}).(*hang)
	if h == nil || h.Block != block {
		return nil
	}
	var err error
	h.once.Do(func() {
		h.hit = true
		select {
		case <-ctx.Done():
			err = fmt.Errorf("call: %w", fmt.Errorf(`running wasm extension "rpc::eth_call": %w`, ctx.Err()))
		case <-time.After(20 * time.Second):
			err = fmt.Errorf("harness: execution context never ended")
		}
	})
	return err
}

type realWorker struct {
	id    int
	env   *runEnv
	inner *work.RemoteWorker
}

func (w *realWorker) ID() string { return fmt.Sprintf("%d", w.id) }

func (w *realWorker) Work(ctx context.Context, unit stage.Unit, startBlock uint64, moduleNames []string, upstream *response.Stream) loop.Cmd {
	env := w.env
	env.mu.Lock()
	jobIdx := env.nStart
	env.nStart++
	env.jobs = append(env.jobs, fmt.Sprintf("%d/%d", unit.Stage, unit.Segment))
	env.mu.Unlock()
	cmd := w.inner.Work(context.WithValue(ctx, jobKey{}, jobIdx), unit, startBlock, moduleNames, upstream)
	return func() (msg loop.Msg) {
		// a panic inside the real worker (it runs in a goroutine of the real event loop) would kill the harness: it is
		// turned into a failed job, the request fails and the oracle reports it with the scenario as replay
		defer func() {
			if r := recover(); r != nil {
				msg = work.MsgJobFailed{Unit: unit, Error: fmt.Errorf("PANIC in RemoteWorker.Work: %v", r)}
			}
		}()
		m := cmd()
		if s, ok := m.(work.MsgJobSucceeded); ok {
			s.Worker = w
			env.waitTurn()
			return s
		}
		return m
	}
}

type inprocClient struct{ env *runEnv }

func (c *inprocClient) ProcessRange(ctx context.Context, in *pbssinternal.ProcessRangeRequest, _ ...grpc.CallOption) (grpc.ServerStreamingClient[pbssinternal.ProcessRangeResponse], error) {
	env := c.env
	jobIdx, _ := ctx.Value(jobKey{}).(int)
	env.mu.Lock()
	if env.attempts == nil {
		env.attempts = map[int]int{}
	}
	attempt := env.attempts[jobIdx]
	env.attempts[jobIdx]++
	if attempt > 0 {
		env.retries++
	}
	env.mu.Unlock()
	var faults []string
	for _, f := range env.opts.Faults {
		if f.Job == jobIdx {
			faults = append(faults, f.Where)
		}
	}
	where := ""
	if attempt < len(faults) {
		where = faults[attempt]
	}
	if where == "before" {
		return nil, status.Error(codes.Unavailable, "injected: connection refused")
	}
	s := &inprocStream{ctx: ctx, done: make(chan error, 1)}
	go func() {
		failAt := int64(-1)
		mid := in.StartBlock() + (in.StopBlock()-in.StartBlock())/2
		jctx := ctx
		timeout := 30 * time.Second
		switch where {
		case "mid":
			failAt = int64(mid)
		case "drain":
			failAt = int64(mid)
			jctx = withDrain(ctx)
		case "exec":
			jctx = context.WithValue(ctx, hangKey{}, &hang{Block: mid})
			timeout = 150 * time.Millisecond
		}
		err := runTier2T(jctx, env, in, failAt, timeout)
		if err == nil && where == "after" {
			s.done <- status.Error(codes.Unavailable, "injected: transport is closing")
			return
		}
		if err != nil {
			env.mu.Lock()
			env.tier2Codes = append(env.tier2Codes, status.Code(service.VerifToGRPCError(jctx, err)).String())
			env.mu.Unlock()
			s.done <- service.VerifToGRPCError(jctx, err)
			return
		}
		s.done <- io.EOF
	}()
	return s, nil
}

type inprocStream struct {
	ctx  context.Context
	done chan error
	err  error
}

func (s *inprocStream) Recv() (*pbssinternal.ProcessRangeResponse, error) {
	if s.err != nil {
		return nil, s.err
	}
	select {
	case s.err = <-s.done:
	case <-s.ctx.Done():
		s.err = status.FromContextError(s.ctx.Err()).Err()
	}
	return nil, s.err
}
func (s *inprocStream) Header() (metadata.MD, error) { return metadata.MD{}, nil }
func (s *inprocStream) Trailer() metadata.MD         { return nil }
func (s *inprocStream) CloseSend() error             { return nil }
func (s *inprocStream) Context() context.Context     { return s.ctx }
func (s *inprocStream) SendMsg(any) error            { return nil }
func (s *inprocStream) RecvMsg(any) error            { return io.EOF }

func realWorkerFactory(env *runEnv) func(*zap.Logger) work.Worker {
	cl := &inprocClient{env: env}
	cf := client.InternalClientFactory(func() (pbssinternal.SubstreamsClient, func() error, []grpc.CallOption, client.Headers, error) {
		return cl, func() error { return nil }, nil, nil, nil
	})
	n := 0
	return func(*zap.Logger) work.Worker {
		n++
		return &realWorker{id: n, env: env, inner: work.NewRemoteWorker(cf, zap.NewNop())}
	}
}

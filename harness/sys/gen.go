package sys

import (
	"fmt"
	"strings"

	"verifharness/common"
)

// GenWorld builds a random valid module graph in dependency order: maps over the block source (emitting on
// some blocks, skipping or returning empty outputs on the others), clock-only and params-only modules, stores of
// several policies fed by maps / clock, maps reading stores in get and deltas mode, block indexes and filtered
// modules; differing initial blocks. The last map is a good output module (OutputCandidates lists all maps).
// genChainWorld: a chain of modules that depend on nothing but each other below one anchored map — the shape in
// which a tier-2 job can do without the block source once the anchored map's outputs are cached: the dependents
// then see exactly what the cache holds (present-but-empty outputs, skipped outputs).
func genChainWorld(r *common.Rng) *World {
	w := &World{}
	m0 := ModSpec{Name: "m0", Kind: "map", FailAt: -1, Every: uint64(r.Range(2, 3)), SkipEmpty: r.Bool(), Init: uint64(r.Range(0, 8))}
	m0.Rem = uint64(r.Intn(int(m0.Every)))
	m0.Inputs = []InputSpec{{Kind: []string{"source", "source", "clock", "params"}[r.Intn(4)]}}
	if m0.Inputs[0].Kind == "params" {
		m0.Inputs[0].Ref = "p1"
	}
	w.Mods = append(w.Mods, m0)
	prevMap, prevStore := "m0", ""
	maxInit := m0.Init
	n := r.Range(1, 4)
	for i := 1; i <= n; i++ {
		init := maxInit
		if r.Chance(1, 3) {
			init += uint64(r.Range(1, 6))
		}
		if (i == n || r.Bool()) || prevStore != "" {
			m := ModSpec{Name: fmt.Sprintf("m%d", i), Kind: "map", FailAt: -1, Every: uint64(r.Range(1, 2)), SkipEmpty: r.Chance(1, 2), Init: init}
			m.Rem = uint64(r.Intn(int(m.Every)))
			m.Inputs = []InputSpec{{Kind: "map", Ref: prevMap}}
			if r.Chance(2, 5) { // a dependent that also wants the clock: needs the block source although it reads no block
				m.Inputs = append([]InputSpec{{Kind: "clock"}}, m.Inputs...)
			}
			if prevStore != "" {
				m.Inputs = append(m.Inputs, InputSpec{Kind: []string{"get", "deltas"}[r.Intn(2)], Ref: prevStore})
				if r.Bool() {
					m.Inputs = m.Inputs[1:]
				}
				prevStore = ""
			}
			w.Mods = append(w.Mods, m)
			prevMap = m.Name
		} else {
			m := ModSpec{Name: fmt.Sprintf("s%d", i), Kind: "store", FailAt: -1, Every: 1, Init: init, Policy: "add", VT: "int64"}
			m.Inputs = []InputSpec{{Kind: "map", Ref: prevMap}}
			switch r.Intn(3) { // the store itself may read the block (its dependents still do not)
			case 0:
				m.Inputs = []InputSpec{{Kind: "source"}}
			case 1:
				m.Inputs = append([]InputSpec{{Kind: "source"}}, m.Inputs...)
			}
			m.Ops = []OpTmpl{{Kind: "sum", Ord: 1, KeyBase: "cnt", ValMul: 0, ValAdd: 1, Mod: 1}, {Kind: "sum", Ord: 2, KeyBase: "k", KeyMod: 3, ValMul: 1, ValAdd: 0, Mod: uint64(r.Range(1, 2))}}
			w.Mods = append(w.Mods, m)
			prevStore = m.Name
		}
		maxInit = init
	}
	return w
}

// genLateStoreWorld: an anchored map reads a store that starts later than the map itself, so that a request can begin
// (and hand off to the linear part) below the store's initial block: the store is not part of the back-processing,
// yet the linear part needs it.
func genLateStoreWorld(r *common.Rng) *World {
	w := &World{}
	m0 := ModSpec{Name: "m0", Kind: "map", FailAt: -1, Every: uint64(r.Range(1, 2)), SkipEmpty: r.Bool(), Init: uint64(r.Range(0, 5))}
	m0.Rem = uint64(r.Intn(int(m0.Every)))
	m0.Inputs = []InputSpec{{Kind: "source"}}
	s1 := ModSpec{Name: "s1", Kind: "store", FailAt: -1, Every: 1, Init: m0.Init + uint64(r.Range(6, 24)), Policy: "add", VT: "int64"}
	s1.Inputs = []InputSpec{{Kind: []string{"source", "clock", "map"}[r.Intn(3)]}}
	if s1.Inputs[0].Kind == "map" {
		s1.Inputs[0].Ref = "m0"
	}
	s1.Ops = []OpTmpl{{Kind: "sum", Ord: 1, KeyBase: "cnt", ValMul: 0, ValAdd: 1, Mod: 1}, {Kind: "sum", Ord: 0, KeyBase: "k", KeyMod: 2, ValMul: 1, ValAdd: 2, Mod: 1}}
	m2 := ModSpec{Name: "m2", Kind: "map", FailAt: -1, Every: 1, Init: m0.Init + uint64(r.Range(0, 4))}
	m2.Inputs = []InputSpec{{Kind: []string{"source", "clock"}[r.Intn(2)]}, {Kind: []string{"get", "deltas"}[r.Intn(2)], Ref: "s1"}}
	if r.Bool() {
		m2.Inputs = append(m2.Inputs, InputSpec{Kind: "map", Ref: "m0"})
	}
	w.Mods = []ModSpec{m0, s1, m2}
	return w
}

func GenWorld(r *common.Rng) *World {
	switch r.Intn(10) {
	case 0, 1:
		return genChainWorld(r)
	case 2:
		return genLateStoreWorld(r)
	}
	w := &World{}
	var maps, stores, indexes []int
	n := r.Range(2, 7)
	name := func(prefix string, i int) string { return fmt.Sprintf("%s%d", prefix, i) }
	for i := 0; i < n; i++ {
		choice := r.Intn(10)
		if i == n-1 || len(maps) == 0 {
			choice = 0
		}
		switch {
		case choice < 5: // map
			m := ModSpec{Name: name("m", i), Kind: "map", FailAt: -1, Every: uint64(r.Range(1, 4)), SkipEmpty: r.Chance(2, 3)}
			m.Rem = uint64(r.Intn(int(m.Every)))
			maxInit := uint64(0)
			hasAnchor := false
			switch r.Intn(6) {
			case 0: // clock only
				m.Inputs = append(m.Inputs, InputSpec{Kind: "clock"})
				hasAnchor = true
			case 1: // params only
				m.Inputs = append(m.Inputs, InputSpec{Kind: "params", Ref: "p" + fmt.Sprint(r.Intn(3))})
				hasAnchor = true
			default:
				if r.Chance(1, 6) {
					m.Inputs = append(m.Inputs, InputSpec{Kind: "params", Ref: "q"})
				}
				if r.Chance(1, 2) || (len(maps) == 0 && len(stores) == 0) {
					m.Inputs = append(m.Inputs, InputSpec{Kind: "source"})
					hasAnchor = true
				} else if r.Chance(1, 3) {
					m.Inputs = append(m.Inputs, InputSpec{Kind: "clock"})
					hasAnchor = true
				}
			}
			nDeps := r.Range(0, 3)
			if i == n-1 && nDeps == 0 {
				nDeps = 1
			}
			// the latest filtered map so far: half of the time this map reads it (so that both are used by one request)
			// and, below, is filtered on the same index module
			prevF, shareF := -1, false
			for _, pm := range maps {
				if w.Mods[pm].FilterMod != "" {
					prevF = pm
				}
			}
			if prevF >= 0 && r.Chance(2, 3) {
				shareF = true
				m.Inputs = append(m.Inputs, InputSpec{Kind: "map", Ref: w.Mods[prevF].Name})
				if w.Mods[prevF].Init > maxInit {
					maxInit = w.Mods[prevF].Init
				}
			}
			for d := 0; d < nDeps; d++ {
				switch k := r.Intn(3); {
				case k == 0 && len(maps) > 0:
					j := maps[r.Intn(len(maps))]
					m.Inputs = append(m.Inputs, InputSpec{Kind: "map", Ref: w.Mods[j].Name})
					if w.Mods[j].Init > maxInit {
						maxInit = w.Mods[j].Init
					}
				case k == 1 && len(stores) > 0:
					j := stores[r.Intn(len(stores))]
					m.Inputs = append(m.Inputs, InputSpec{Kind: "get", Ref: w.Mods[j].Name})
					if w.Mods[j].Init > maxInit {
						maxInit = w.Mods[j].Init
					}
				case k == 2 && len(stores) > 0:
					j := stores[r.Intn(len(stores))]
					m.Inputs = append(m.Inputs, InputSpec{Kind: "deltas", Ref: w.Mods[j].Name})
					if w.Mods[j].Init > maxInit {
						maxInit = w.Mods[j].Init
					}
				}
			}
			if len(m.Inputs) == 0 || (len(m.Inputs) == 1 && m.Inputs[0].Kind == "params" && !hasAnchor) {
				m.Inputs = append(m.Inputs, InputSpec{Kind: "source"})
				hasAnchor = true
			}
			dedupInputs(&m)
			hasAnchor = anchored(&m)
			m.Init = pickInit(r, maxInit, hasAnchor)
			// a second module filtered on the SAME index module (both filters are then evaluated against one loaded index: the
			// first must not damage what the second reads), with queries that share keys
			if len(indexes) > 0 && (r.Chance(1, 3) || shareF) {
				j := indexes[r.Intn(len(indexes))]
				m.FilterMod = w.Mods[j].Name
				m.FilterQ = []string{"a", "b", "a || b", "a b", "(a || c) b", "c", "a && c", "b && a", "(a) || c", "a"}[r.Intn(10)]
				if shareF {
					if r.Chance(2, 3) { // the earlier filter is a conjunction led by a key, this one reads that key again
						pair := [][2]string{{"a b", "a"}, {"a && c", "a || c"}, {"b && a", "b"}, {"b a", "a || b"}, {"a && b", "(a) || c"}, {"(b) a", "b || c"}}[r.Intn(6)]
						w.Mods[prevF].FilterQ, m.FilterQ = pair[0], pair[1]
					}
					m.FilterMod = w.Mods[prevF].FilterMod
					for k := range w.Mods {
						if w.Mods[k].Name == m.FilterMod {
							j = k
						}
					}
				}
				if w.Mods[j].Init > m.Init {
					m.Init = w.Mods[j].Init
				}
			}
			maps = append(maps, i)
			w.Mods = append(w.Mods, m)
		case choice < 8: // store
			m := ModSpec{Name: name("s", i), Kind: "store", FailAt: -1, Every: uint64(r.Range(1, 2))}
			m.Rem = uint64(r.Intn(int(m.Every)))
			maxInit := uint64(0)
			hasAnchor := false
			switch r.Intn(4) {
			case 0:
				m.Inputs = append(m.Inputs, InputSpec{Kind: "clock"})
				hasAnchor = true
			case 1:
				m.Inputs = append(m.Inputs, InputSpec{Kind: "source"})
				hasAnchor = true
			}
			if len(maps) > 0 && (r.Chance(2, 3) || !hasAnchor) {
				j := maps[r.Intn(len(maps))]
				m.Inputs = append(m.Inputs, InputSpec{Kind: "map", Ref: w.Mods[j].Name})
				maxInit = w.Mods[j].Init
			}
			if len(stores) > 0 && r.Chance(1, 4) {
				j := stores[r.Intn(len(stores))]
				m.Inputs = append(m.Inputs, InputSpec{Kind: []string{"get", "deltas"}[r.Intn(2)], Ref: w.Mods[j].Name})
				if w.Mods[j].Init > maxInit {
					maxInit = w.Mods[j].Init
				}
			}
			if len(m.Inputs) == 0 {
				m.Inputs = append(m.Inputs, InputSpec{Kind: "source"})
				hasAnchor = true
			}
			dedupInputs(&m)
			hasAnchor = anchored(&m)
			m.Init = pickInit(r, maxInit, hasAnchor)
			pv := [][2]string{{"add", "int64"}, {"add", "int64"}, {"add", "bigint"}, {"add", "bigdecimal"}, {"set", "bytes"}, {"sine", "bytes"}, {"append", "bytes"}, {"max", "int64"}, {"min", "int64"}, {"setsum", "int64"}}[r.Intn(10)]
			m.Policy, m.VT = pv[0], pv[1]
			kind := map[string]string{"add": "sum", "set": "set", "sine": "sine", "append": "app", "max": "max", "min": "min"}[m.Policy]
			for k := 0; k < r.Range(1, 3); k++ {
				o := OpTmpl{Kind: kind, Ord: uint64(r.Intn(3)), KeyBase: []string{"cnt", "k", "ka"}[r.Intn(3)], ValMul: int64(r.Range(-1, 2)), ValAdd: int64(r.Range(0, 5)), Mod: uint64(r.Range(1, 3))}
				if m.Policy == "setsum" {
					o.Kind = []string{"ssumset", "ssumsum", "ssumsum"}[r.Intn(3)]
				}
				o.Rem = uint64(r.Intn(int(o.Mod)))
				if r.Bool() {
					o.KeyMod = uint64(r.Range(2, 3))
				}
				m.Ops = append(m.Ops, o)
			}
			if m.Policy == "set" && r.Chance(1, 3) { // now and then a block that writes forty keys at once
				m.Ops = append(m.Ops, OpTmpl{Kind: "burst", Ord: uint64(r.Intn(3)), KeyBase: "kb", ValMul: 1, ValAdd: int64(r.Range(0, 5)), Mod: uint64(r.Range(2, 4)), Rem: uint64(r.Intn(2))})
			}
			if r.Chance(1, 3) { // shrink / delete keys now and then
				m.Ops = append(m.Ops, OpTmpl{Kind: "del", Ord: uint64(r.Intn(3)), KeyBase: []string{"k", "ka", "c"}[r.Intn(3)], Mod: uint64(r.Range(2, 5)), Rem: 1})
			}
			stores = append(stores, i)
			w.Mods = append(w.Mods, m)
		default: // index over a map (or over the block source)
			m := ModSpec{Name: name("i", i), Kind: "index", FailAt: -1, Every: 1}
			maxInit := uint64(0)
			hasAnchor := false
			if len(maps) > 0 && r.Bool() {
				j := maps[r.Intn(len(maps))]
				m.Inputs = append(m.Inputs, InputSpec{Kind: "map", Ref: w.Mods[j].Name})
				maxInit = w.Mods[j].Init
			} else {
				m.Inputs = append(m.Inputs, InputSpec{Kind: "source"})
				hasAnchor = true
			}
			m.Init = pickInit(r, maxInit, hasAnchor)
			m.Keys = []KeyTmpl{{"a", uint64(r.Range(1, 3)), 0}, {"b", uint64(r.Range(2, 4)), 1}, {"c", 5, 2}}
			indexes = append(indexes, i)
			w.Mods = append(w.Mods, m)
		}
	}
	return w
}

// anchored: some input exists at every block (block source, clock, or params as the sole input), so the module
// may start below the initial blocks of the modules it reads
func anchored(m *ModSpec) bool {
	for _, in := range m.Inputs {
		if in.Kind == "source" || in.Kind == "clock" {
			return true
		}
	}
	return len(m.Inputs) == 1 && m.Inputs[0].Kind == "params"
}

func dedupInputs(m *ModSpec) {
	seen := map[string]bool{}
	var out []InputSpec
	for _, in := range m.Inputs {
		k := in.Kind + "=" + in.Ref
		if in.Kind == "get" || in.Kind == "deltas" { // one input per store
			k = "store=" + in.Ref
		}
		if seen[k] {
			continue
		}
		seen[k] = true
		out = append(out, in)
	}
	// params must be the first input
	for i, in := range out {
		if in.Kind == "params" && i != 0 {
			out[0], out[i] = out[i], out[0]
		}
	}
	m.Inputs = out
}

func pickInit(r *common.Rng, depMax uint64, anchored bool) uint64 {
	switch r.Intn(4) {
	case 0:
		return depMax
	case 1:
		return depMax + uint64(r.Range(1, 12))
	default:
		if anchored && r.Bool() {
			return uint64(r.Range(0, 14))
		}
		return depMax + uint64(r.Range(0, 3))
	}
}

func (w *World) Maps() []string {
	var out []string
	for _, m := range w.Mods {
		if m.Kind == "map" {
			out = append(out, m.Name)
		}
	}
	return out
}

// MapAncestors: the map modules the module `name` depends on, directly or not (nearest first, without `name`).
func (w *World) MapAncestors(name string) []string {
	var out []string
	seen := map[string]bool{name: true}
	queue := []string{name}
	for len(queue) > 0 {
		m := w.Mod(queue[0])
		queue = queue[1:]
		if m == nil {
			continue
		}
		refs := []string{}
		for _, in := range m.Inputs {
			if in.Kind == "map" || in.Kind == "get" || in.Kind == "deltas" {
				refs = append(refs, in.Ref)
			}
		}
		if m.FilterMod != "" {
			refs = append(refs, m.FilterMod)
		}
		for _, r := range refs {
			if seen[r] {
				continue
			}
			seen[r] = true
			queue = append(queue, r)
			if d := w.Mod(r); d != nil && d.Kind == "map" {
				out = append(out, r)
			}
		}
	}
	return out
}

// UsedMods: the module `name` and everything it depends on, directly or not (the modules a request for it executes).
func (w *World) UsedMods(name string) []string {
	out := []string{name}
	seen := map[string]bool{name: true}
	for i := 0; i < len(out); i++ {
		m := w.Mod(out[i])
		if m == nil {
			continue
		}
		refs := []string{}
		for _, in := range m.Inputs {
			if in.Kind == "map" || in.Kind == "get" || in.Kind == "deltas" {
				refs = append(refs, in.Ref)
			}
		}
		if m.FilterMod != "" {
			refs = append(refs, m.FilterMod)
		}
		for _, r := range refs {
			if !seen[r] {
				seen[r] = true
				out = append(out, r)
			}
		}
	}
	return out
}

// Scenario: a world plus a request over it.
type Scenario struct {
	W      *World
	Output string
	Start  uint64
	Stop   uint64
	Head   uint64
	Final  uint64
	Seg    uint64
}

func GenScenario(rng *common.Rng) *Scenario {
	w := GenWorld(rng)
	maps := w.Maps()
	output := maps[len(maps)-1]
	if rng.Chance(1, 4) {
		output = maps[rng.Intn(len(maps))]
	}
	om := w.Mod(output)
	sc := &Scenario{W: w, Output: output, Seg: uint64(rng.Range(2, 12))}
	sc.Start = om.Init + uint64(rng.Range(0, 15))
	if sc.Start == 0 {
		sc.Start = 1
	}
	sc.Stop = sc.Start + uint64(rng.Range(1, 30))
	sc.Head = sc.Stop + uint64(rng.Range(0, 8))
	sc.Final = sc.Head
	switch rng.Intn(4) {
	case 0:
		sc.Final = sc.Start + uint64(rng.Intn(int(sc.Stop-sc.Start)+1)) // finality point inside the range
	case 1:
		if sc.Start > 3 {
			sc.Final = sc.Start - uint64(rng.Range(1, 3)) // below the start block
		}
	}
	return sc
}

// Encode: the scenario as one word (world encoding has no spaces): world|output|start|stop|head|final|seg
func (sc *Scenario) Encode() string {
	return fmt.Sprintf("%s|%s|%d|%d|%d|%d|%d", sc.W.Encode(), sc.Output, sc.Start, sc.Stop, sc.Head, sc.Final, sc.Seg)
}

func DecodeScenario(s string) *Scenario {
	f := strings.Split(s, "|")
	if len(f) != 7 {
		panic("bad scenario encoding: " + s)
	}
	return &Scenario{W: Decode(f[0]), Output: f[1], Start: common.Atou(f[2]), Stop: common.Atou(f[3]), Head: common.Atou(f[4]), Final: common.Atou(f[5]), Seg: common.Atou(f[6])}
}

// GenScenarioOr draws a scenario (always, so that the PRNG stream does not depend on `fixed`) and returns the fixed
// one instead when given: corpus entries keep their world and request when the generators change.
func GenScenarioOr(rng *common.Rng, fixed string) *Scenario {
	sc := GenScenario(rng)
	if fixed != "" {
		return DecodeScenario(fixed)
	}
	return sc
}

func (sc *Scenario) Req(prod bool, workers int) Req {
	return Req{Prod: prod, Start: int64(sc.Start), Stop: sc.Stop, Final: sc.Final, Head: sc.Head, Seg: sc.Seg, Workers: workers, Output: sc.Output}
}

// StoresAboveHandoff: the graph (ancestors of the output) has stores but all of them start at or above the
// hand-off block — the shape of known defect "stage index shift when the store stage is skipped".
func (sc *Scenario) HasStore() bool {
	for _, m := range sc.W.Mods {
		if m.Kind == "store" {
			return true
		}
	}
	return false
}

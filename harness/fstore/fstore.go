// Package fstore: a dstore whose first writes fail transiently, the way an object-storage upload does.  The retry loops
// around WriteObject in storage/store (saveStore), storage/execout (File.Save) and storage/index (File.Save) — real
// derr.RetryContext with its real back-off sleeps of 1 s, 2 s, … — are what turn these faults into a successful save.
package fstore

import (
	"bytes"
	"context"
	"fmt"
	"io"
	"strings"
	"sync"

	"github.com/streamingfast/dstore"
)

// Faulty: the first len(Pattern) WriteObject calls whose object name contains Match (any name when empty) fail:
//
//	'0' before anything was read from the payload
//	'h' after half of it was read
//	'a' after all of it was read (commit/close error)
//	'g' after half of it was read AND with that half left under the object's name (a store without atomic writes)
//
// Later calls go to the real store.
type Faulty struct {
	dstore.Store
	st *state
}

type state struct {
	mu      sync.Mutex
	pattern string
	match   string
	calls   int
}

func New(inner dstore.Store, pattern, match string) Faulty {
	return Faulty{inner, &state{pattern: pattern, match: match}}
}

// Hits: how many writes were failed so far
func (s Faulty) Hits() int {
	s.st.mu.Lock()
	defer s.st.mu.Unlock()
	if s.st.calls > len(s.st.pattern) {
		return len(s.st.pattern)
	}
	return s.st.calls
}

func (s Faulty) SubStore(p string) (dstore.Store, error) {
	in, err := s.Store.SubStore(p)
	if err != nil {
		return nil, err
	}
	return Faulty{in, s.st}, nil
}

func (s Faulty) WriteObject(ctx context.Context, name string, r io.Reader) error {
	if s.st.match != "" && !strings.Contains(name, s.st.match) {
		return s.Store.WriteObject(ctx, name, r)
	}
	s.st.mu.Lock()
	i := s.st.calls
	s.st.calls++
	s.st.mu.Unlock()
	if i >= len(s.st.pattern) {
		return s.Store.WriteObject(ctx, name, r)
	}
	kind := s.st.pattern[i]
	if kind == '0' {
		return fmt.Errorf("injected transient write failure (attempt %d, before reading)", i+1)
	}
	all, _ := io.ReadAll(io.LimitReader(r, 1<<30))
	if kind == 'h' || kind == 'g' {
		// only half is considered consumed: seek back when the reader allows it (bytes.Reader does)
		if sk, ok := r.(io.Seeker); ok {
			sk.Seek(int64(len(all)/2)-int64(len(all)), io.SeekCurrent)
		}
		if kind == 'g' {
			s.Store.WriteObject(ctx, name, bytes.NewReader(all[:len(all)/2]))
		}
	}
	return fmt.Errorf("injected transient write failure (attempt %d, kind %c)", i+1, kind)
}

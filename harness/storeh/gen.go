package storeh

import (
	"fmt"
	"math"
	"strconv"
	"strings"

	"verifharness/common"
)

// Combo: a (policy, value type) pair admitted by the host interface. GoVT is the store's configured value type.
type Combo struct {
	Policy string // set sine append add min max setsum
	VT     string // model value type: bytes int64 bigint bigdecimal float64
	GoVT   string
}

var Combos = func() []Combo {
	c := []Combo{{"set", "bytes", "bytes"}, {"set", "bytes", "string"}, {"set", "bytes", "proto:some.Type"},
		{"sine", "bytes", "bytes"}, {"sine", "bytes", "string"}, {"sine", "bytes", "proto:some.Type"},
		{"append", "bytes", "bytes"}, {"append", "bytes", "string"}}
	for _, p := range []string{"add", "min", "max"} {
		for _, vt := range []string{"int64", "bigint", "bigdecimal", "float64"} {
			c = append(c, Combo{p, vt, vt})
		}
		c = append(c, Combo{p, "bigdecimal", "bigfloat"})
	}
	for _, vt := range []string{"int64", "bigint", "bigdecimal", "float64"} {
		c = append(c, Combo{"setsum", vt, vt})
	}
	return c
}()

func (c Combo) String() string { return c.Policy + "/" + c.GoVT }

var Keys = [][]byte{[]byte("a"), []byte("a1"), []byte("ab"), []byte("b"), []byte("b1"), []byte("abc")}
var Prefixes = [][]byte{[]byte("a"), []byte("ab"), []byte("b"), []byte("a1"), []byte("c"), {}}

type Limits struct{ Append, Total, Item uint64 }

var NoLimits = Limits{8_388_608, 1_073_741_824, 10_485_760}

type Gen struct {
	R *common.Rng
	C Combo
	// Odd: probability (percent) of odd inputs (reserved/empty/0xFF keys, huge numbers, >34 decimals)
	Odd int
	// NoFloatHazard restricts float operands to dyadic rationals so that float addition is exact
	ExactFloats bool
}

func (g *Gen) Header(l Limits) string {
	return fmt.Sprintf("%s %s %d %d %d %s", g.C.Policy, g.C.VT, l.Append, l.Total, l.Item, g.C.GoVT)
}

func (g *Gen) key() []byte {
	if g.Odd > 0 && g.R.Intn(100*20) < g.Odd {
		switch g.R.Intn(3) {
		case 0:
			return []byte("__!__x")
		case 1:
			return []byte{}
		default:
			return []byte{0xFF, 'k'}
		}
	}
	return Keys[g.R.Intn(len(Keys))]
}

func (g *Gen) intText() string {
	r := g.R
	if g.Odd > 0 && r.Intn(100) < g.Odd {
		switch r.Intn(4) {
		case 0:
			return strconv.FormatInt(math.MaxInt64-int64(r.Intn(3)), 10)
		case 1:
			return strconv.FormatInt(math.MinInt64+int64(r.Intn(3)), 10)
		case 2:
			return strconv.FormatInt(int64(1)<<62+int64(r.Intn(5)), 10)
		default:
			return "0"
		}
	}
	return strconv.Itoa(r.Range(-20, 40))
}

func (g *Gen) bigIntText() string {
	r := g.R
	if g.Odd > 0 && r.Intn(100) < g.Odd {
		s := "1"
		for i := 0; i < r.Range(18, 40); i++ {
			s += strconv.Itoa(r.Intn(10))
		}
		if r.Bool() {
			s = "-" + s
		}
		return s
	}
	return strconv.Itoa(r.Range(-20, 40))
}

func (g *Gen) decText() string {
	r := g.R
	ip := strconv.Itoa(r.Range(0, 30))
	nfrac := r.Range(0, 4)
	if g.Odd > 0 && r.Intn(100) < g.Odd {
		nfrac = r.Range(30, 38) // around the 34-decimals truncation of the host interface
	}
	fp := ""
	for i := 0; i < nfrac; i++ {
		fp += strconv.Itoa(r.Intn(10))
	}
	s := ip
	if nfrac > 0 {
		s += "." + fp
	}
	if r.Chance(1, 4) {
		s = "-" + s
	}
	return s
}

func (g *Gen) floatBitsText() string {
	r := g.R
	var f float64
	if g.ExactFloats {
		f = float64(r.Range(-64, 160)) / 8
	} else {
		switch r.Intn(6) {
		case 0:
			f = float64(r.Range(-64, 160)) / 8
		case 1:
			f = float64(r.Range(1, 99)) / 10 // 0.1 … 9.9: inexact sums
		case 2:
			f = 1e16 * float64(r.Range(1, 9))
		case 3:
			f = float64(r.Range(1, 9)) * 1e-7
		case 4:
			f = -float64(r.Range(1, 999)) / 100
		default:
			f = float64(r.Range(0, 3))
		}
	}
	return strconv.FormatUint(math.Float64bits(f), 10)
}

func (g *Gen) numText() string {
	switch g.C.VT {
	case "int64":
		return g.intText()
	case "bigint":
		return g.bigIntText()
	case "bigdecimal":
		return g.decText()
	default:
		return g.floatBitsText()
	}
}

func (g *Gen) bytesVal() []byte {
	n := g.R.Range(0, 3)
	if g.R.Chance(1, 8) { // now and then long enough to reach past the header of a neighbouring entry in a file buffer
		n = g.R.Range(5, 14)
	}
	b := make([]byte, n)
	for i := range b {
		b[i] = byte("xyz\x00\xff7"[g.R.Intn(6)])
	}
	if g.R.Chance(1, 10) { // values that look like the tagged values of a set_sum store (they are plain bytes here)
		b = append([]byte([]string{"set:", "sum:", "set:", "se"}[g.R.Intn(4)]), b...)
	}
	return b
}

// Op generates one host call admitted by the combo (plus delete_prefix, which every policy admits).
func (g *Gen) Op(maxOrd int) Op {
	r := g.R
	ord := uint64(r.Intn(maxOrd + 1))
	if r.Chance(1, 7) {
		return Op{"del", ord, Prefixes[r.Intn(len(Prefixes))], nil}
	}
	k := g.key()
	switch g.C.Policy {
	case "set":
		return Op{"set", ord, k, g.bytesVal()}
	case "sine":
		return Op{"sine", ord, k, g.bytesVal()}
	case "append":
		return Op{"app", ord, k, g.bytesVal()}
	case "add":
		return Op{"sum", ord, k, []byte(g.numText())}
	case "min":
		return Op{"min", ord, k, []byte(g.numText())}
	case "max":
		return Op{"max", ord, k, []byte(g.numText())}
	default: // setsum
		tag := "sum:"
		if r.Chance(1, 3) {
			tag = "set:"
		}
		return Op{"ssum", ord, k, []byte(tag + g.numText())}
	}
}

func (g *Gen) Block(maxOps, maxOrd int) []Op {
	n := g.R.Range(0, maxOps)
	if g.R.Chance(4, 5) && n == 0 {
		n = 1
	}
	if g.R.Chance(1, 6) {
		// long blocks with many ties: library sorts switch algorithm above a dozen elements (stability!)
		n = g.R.Range(13, 40)
		if maxOrd > 2 && g.R.Bool() {
			maxOrd = 2
		}
	}
	ops := make([]Op, n)
	for i := range ops {
		ops[i] = g.Op(maxOrd)
	}
	return ops
}

// ReadSteps: `rd` steps for every key × ordinals 0..maxOrd+1 on store n
func ReadSteps(n string, maxOrd int) []string {
	var out []string
	for _, k := range Keys {
		for o := 0; o <= maxOrd+1; o++ {
			out = append(out, fmt.Sprintf("rd %s %d %s", n, o, common.Hex(k)))
		}
	}
	return out
}

func Join(header string, steps []string) string { return header + " ; " + strings.Join(steps, " ; ") }

// NonTrivial: the block list exercises something (a key written twice, or a deletion hitting a written key, or
// equal ordinals)
func NonTrivialBlocks(blocks [][]Op) bool {
	seen := map[string]int{}
	for _, b := range blocks {
		ords := map[uint64]bool{}
		for _, o := range b {
			if o.Kind == "del" {
				for k := range seen {
					if strings.HasPrefix(k, string(o.Key)) {
						return true
					}
				}
			} else {
				seen[string(o.Key)]++
				if seen[string(o.Key)] > 1 || ords[o.Ord] {
					return true
				}
			}
			ords[o.Ord] = true
		}
	}
	return false
}

// Package storeh runs store histories (the line protocol of lean/Driver/StoreProto.lean) against the REAL
// storage/store code, through the real host interface wasm.Call.Do*, real Flush / GetDeltas / readers /
// Merge / Save / Load / ReadOps / ApplyOps / ApplyDeltasReverse.
package storeh

import (
	"context"
	"fmt"
	"github.com/streamingfast/substreams/pipeline/exec"
	"github.com/streamingfast/substreams/storage/execout"
	"google.golang.org/protobuf/proto"
	"math"
	"math/big"
	"os"
	"sort"
	"strconv"
	"strings"

	"github.com/shopspring/decimal"
	"github.com/streamingfast/dmetering"
	"github.com/streamingfast/dstore"
	"go.uber.org/zap"

	"github.com/streamingfast/substreams/metrics"
	pbsubstreams "github.com/streamingfast/substreams/pb/sf/substreams/v1"
	"github.com/streamingfast/substreams/reqctx"
	"github.com/streamingfast/substreams/storage/store"
	"github.com/streamingfast/substreams/wasm"

	"verifharness/common"
)

type Op struct {
	Kind string // set sine app del max min sum ssum
	Ord  uint64
	Key  []byte
	Val  []byte // model-format operand: decimal text / text of float bits / tagged
}

func (o Op) String() string {
	return fmt.Sprintf("%s:%d:%s:%s", o.Kind, o.Ord, common.Hex(o.Key), common.Hex(o.Val))
}

func ParseOps(s string) []Op {
	if s == "-" {
		return nil
	}
	var out []Op
	for _, p := range strings.Split(s, ",") {
		f := strings.Split(p, ":")
		out = append(out, Op{f[0], common.Atou(f[1]), common.Unhex(f[2]), common.Unhex(f[3])})
	}
	return out
}
func ShowOps(ops []Op) string {
	if len(ops) == 0 {
		return "-"
	}
	p := make([]string, len(ops))
	for i, o := range ops {
		p[i] = o.String()
	}
	return strings.Join(p, ",")
}

var policies = map[string]pbsubstreams.Module_KindStore_UpdatePolicy{
	"set": pbsubstreams.Module_KindStore_UPDATE_POLICY_SET, "sine": pbsubstreams.Module_KindStore_UPDATE_POLICY_SET_IF_NOT_EXISTS,
	"add": pbsubstreams.Module_KindStore_UPDATE_POLICY_ADD, "min": pbsubstreams.Module_KindStore_UPDATE_POLICY_MIN,
	"max": pbsubstreams.Module_KindStore_UPDATE_POLICY_MAX, "append": pbsubstreams.Module_KindStore_UPDATE_POLICY_APPEND,
	"setsum": pbsubstreams.Module_KindStore_UPDATE_POLICY_SET_SUM,
}

// Env is one history's world: config, stores F, G (full), P (partial) and their lagging twins used for replay.
type Env struct {
	Ctx     context.Context
	Policy  string
	VT      string
	GoVT    string
	cfg     *store.Config
	dir     string
	stores  map[string]store.Store
	twins   map[string]store.Store
	pending map[string][]Op // block executed on the store but not yet on its twin
	hasPend map[string]bool
	stats   *metrics.Stats
	saveN   uint64
	Dead    bool
	// oracle findings of this history
	Fail func(class, desc string)
	// pre-block content (real Iter) for the delta oracle
	pre map[string]map[string][]byte
	// the operation log the executor produced for the cached-output file of the last block of each store
	lastLog map[store.Store][]byte
}

func NewEnv(ctx context.Context, dir, policy, vt, govt string, appendLimit, totalLimit, itemLimit uint64) *Env {
	os.RemoveAll(dir)
	os.MkdirAll(dir, 0o755)
	ds, err := dstore.NewStore("file://"+dir, "", "none", true)
	if err != nil {
		panic(err)
	}
	cfg, err := store.NewConfig("mod", 0, "hash", policies[policy], govt, ds)
	if err != nil {
		panic(err)
	}
	cfg.VerifSetLimits(appendLimit, totalLimit, itemLimit)
	e := &Env{Ctx: ctx, Policy: policy, VT: vt, GoVT: govt, cfg: cfg, dir: dir, stores: map[string]store.Store{}, twins: map[string]store.Store{},
		pending: map[string][]Op{}, hasPend: map[string]bool{}, pre: map[string]map[string][]byte{},
		stats: metrics.NewReqStats(&metrics.Config{}, zap.NewNop())}
	for _, n := range []string{"F", "G"} {
		e.stores[n] = cfg.NewFullKV(zap.NewNop())
		e.twins[n] = cfg.NewFullKV(zap.NewNop())
	}
	e.stores["P"] = cfg.NewPartialKV(0, zap.NewNop())
	e.twins["P"] = cfg.NewPartialKV(0, zap.NewNop())
	e.Fail = func(string, string) {}
	return e
}

func NewCtx() context.Context {
	ctx := context.Background()
	ctx = reqctx.WithLogger(ctx, zap.NewNop())
	ctx = dmetering.WithBytesMeter(ctx)
	return ctx
}

// ---- float canonicalisation: model format = decimal text of the IEEE bits

func bitsText(f float64) []byte { return []byte(strconv.FormatUint(math.Float64bits(f), 10)) }
func textBits(b []byte) float64 {
	u, err := strconv.ParseUint(string(b), 10, 64)
	if err != nil {
		panic("bad float bits text " + string(b))
	}
	return math.Float64frombits(u)
}

// canon maps a real stored value to the model's representation (identity except for float64 stores).
func (e *Env) canon(v []byte) []byte {
	if e.VT != "float64" {
		return v
	}
	tag := ""
	body := string(v)
	if e.Policy == "setsum" && (strings.HasPrefix(body, "sum:") || strings.HasPrefix(body, "set:")) {
		tag, body = body[:4], body[4:]
	}
	f, err := strconv.ParseFloat(body, 64)
	if err != nil {
		return append([]byte("unparsable:"), v...)
	}
	return append([]byte(tag), bitsText(f)...)
}

// canonTyped: value as the exported readers return it (tag already stripped by the store)
func (e *Env) canonTyped(v []byte) []byte {
	if e.VT != "float64" {
		return v
	}
	f, err := strconv.ParseFloat(string(v), 64)
	if err != nil {
		return append([]byte("unparsable:"), v...)
	}
	return bitsText(f)
}

// ---- host calls

func (e *Env) doOp(c *wasm.Call, o Op) {
	key := string(o.Key)
	switch o.Kind {
	case "set":
		c.DoSet(o.Ord, key, o.Val)
	case "sine":
		c.DoSetIfNotExists(o.Ord, key, o.Val)
	case "app":
		c.DoAppend(o.Ord, key, o.Val)
	case "del":
		c.DoDeletePrefix(o.Ord, key)
	case "sum", "max", "min":
		switch e.VT {
		case "int64":
			v, err := strconv.ParseInt(string(o.Val), 10, 64)
			if err != nil {
				panic("harness: bad int64 operand")
			}
			map[string]func(uint64, string, int64){"sum": c.DoAddInt64, "max": c.DoSetMaxInt64, "min": c.DoSetMinInt64}[o.Kind](o.Ord, key, v)
		case "bigint":
			map[string]func(uint64, string, string){"sum": c.DoAddBigInt, "max": c.DoSetMaxBigInt, "min": c.DoSetMinBigInt}[o.Kind](o.Ord, key, string(o.Val))
		case "bigdecimal":
			map[string]func(uint64, string, string){"sum": c.DoAddBigDecimal, "max": c.DoSetMaxBigDecimal, "min": c.DoSetMinBigDecimal}[o.Kind](o.Ord, key, string(o.Val))
		case "float64":
			map[string]func(uint64, string, float64){"sum": c.DoAddFloat64, "max": c.DoSetMaxFloat64, "min": c.DoSetMinFloat64}[o.Kind](o.Ord, key, textBits(o.Val))
		}
	case "ssum":
		val := string(o.Val)
		if e.VT == "float64" && len(val) >= 4 { // model carries bits text after the tag; the module passes a decimal text
			val = val[:4] + strconv.FormatFloat(textBits(o.Val[4:]), 'g', -1, 64)
		}
		switch e.VT {
		case "int64":
			c.DoSetSumInt64(o.Ord, key, val)
		case "bigint":
			c.DoSetSumBigInt(o.Ord, key, val)
		case "bigdecimal":
			c.DoSetSumBigDecimal(o.Ord, key, val)
		case "float64":
			c.DoSetSumFloat64(o.Ord, key, val)
		}
	}
}

// execBlock = what the pipeline does for one block of a store module: NewCall (which Resets the store),
// the module's host calls, then the executor's own wrapDeltasAndOps (hook exec.VerifWrapDeltasAndOps: Flush, the
// deltas, and the operation log destined to the cached-output file — the log `rp` replays).
func (e *Env) execBlock(s store.Store, ops []Op) (res string) {
	defer func() {
		if r := recover(); r != nil {
			res = "hosterr"
		}
	}()
	call := wasm.NewCall(&pbsubstreams.Clock{}, "mod", "entry", e.stats, []wasm.Argument{
		wasm.NewStoreWriterOutput("mod", s, policies[e.Policy], e.GoVT)})
	for _, o := range ops {
		e.doOp(call, o)
	}
	_, log, err := exec.VerifWrapDeltasAndOps(s)
	if err != nil {
		return "err:" + classifyErr(err)
	}
	if e.lastLog == nil {
		e.lastLog = map[store.Store][]byte{}
	}
	e.lastLog[s] = log
	return ""
}

func classifyErr(err error) string {
	m := err.Error()
	switch {
	case strings.Contains(m, "reserved for internal"):
		return "reserved"
	case strings.Contains(m, "attempted to write"):
		return "item"
	case strings.Contains(m, "invalid key"), strings.Contains(m, "key invalid, must be at least 1 character for"):
		return "emptykey"
	case strings.Contains(m, "not start with 0xFF"):
		return "ffkey"
	case strings.Contains(m, "became too big"):
		return "toobig"
	case strings.Contains(m, "append would exceed"):
		return "applimit"
	}
	return "badvalue"
}

func (e *Env) showDeltas(ds []*pbsubstreams.StoreDelta) string {
	p := make([]string, len(ds))
	for i, d := range ds {
		op := map[pbsubstreams.StoreDelta_Operation]string{pbsubstreams.StoreDelta_CREATE: "C", pbsubstreams.StoreDelta_UPDATE: "U", pbsubstreams.StoreDelta_DELETE: "D"}[d.Operation]
		old, nw := d.OldValue, d.NewValue
		if d.Operation != pbsubstreams.StoreDelta_CREATE {
			old = e.canon(old)
		}
		if d.Operation != pbsubstreams.StoreDelta_DELETE {
			nw = e.canon(nw)
		}
		p[i] = fmt.Sprintf("%s%d:%s:%s>%s", op, d.Ordinal, common.Hex([]byte(d.Key)), common.Hex(old), common.Hex(nw))
	}
	return "[" + strings.Join(p, ",") + "]"
}

func content(s store.Store) map[string][]byte {
	m := map[string][]byte{}
	s.Iter(func(k string, v []byte) error { m[k] = append([]byte{}, v...); return nil })
	return m
}

func (e *Env) showKV(m map[string][]byte, typed bool) string {
	keys := make([]string, 0, len(m))
	for k := range m {
		keys = append(keys, k)
	}
	sort.Strings(keys)
	p := make([]string, len(keys))
	for i, k := range keys {
		v := e.canon(m[k])
		if typed {
			if e.Policy == "setsum" && len(v) >= 4 && (string(v[:4]) == "sum:" || string(v[:4]) == "set:") {
				v = v[4:]
			}
			// typed value: numbers re-rendered canonically ("007" = "7", "1.50" = "1.5")
			switch e.VT {
			case "int64", "bigint":
				if i, ok := new(big.Int).SetString(string(v), 10); ok {
					v = []byte(i.String())
				}
			case "bigdecimal":
				if d, err := decimal.NewFromString(string(v)); err == nil && !strings.ContainsAny(string(v), "eE") {
					v = []byte(d.String())
				}
			}
		}
		p[i] = common.Hex([]byte(k)) + "=" + common.Hex(v)
	}
	return "{" + strings.Join(p, ",") + "}"
}

func realSize(m map[string][]byte) uint64 {
	var n uint64
	for k, v := range m {
		n += uint64(len(k) + len(v))
	}
	return n
}

func (e *Env) showState(name string, s store.Store) string {
	m := content(s)
	size := fmt.Sprint(s.SizeBytes())
	if e.VT == "float64" {
		size = "~" // float texts are outside the model; the size oracle below still runs on the real code
	}
	out := e.showKV(m, false) + " size=" + size
	if p, ok := s.(*store.PartialKV); ok {
		dp := map[string]bool{}
		for _, x := range p.DeletedPrefixes {
			dp[x] = true
		}
		var l []string
		for x := range dp {
			l = append(l, x)
		}
		sort.Strings(l)
		for i := range l {
			l[i] = common.Hex([]byte(l[i]))
		}
		out += " dp=[" + strings.Join(l, ",") + "]"
	}
	// C11 oracle on the real code: reported size = Σ len(key)+len(value)
	if rs := realSize(m); rs != s.SizeBytes() {
		e.Fail("C11/size-drift/"+e.Policy+"/"+e.VT, fmt.Sprintf("store %s reports SizeBytes=%d, content is %d bytes", name, s.SizeBytes(), rs))
	}
	return out
}

func ob(v []byte, found bool) string {
	if !found {
		return "_"
	}
	return common.Hex(v)
}

// flushTwin brings the twin of store n up to date with the store (executes the pending block on it)
func (e *Env) flushTwin(n string) {
	if e.hasPend[n] {
		e.execBlock(e.twins[n], e.pending[n])
		e.hasPend[n] = false
	}
}

func applyDeltasTo(m map[string][]byte, ds []*pbsubstreams.StoreDelta, upTo int) map[string][]byte {
	out := map[string][]byte{}
	for k, v := range m {
		out[k] = v
	}
	for i := 0; i < upTo; i++ {
		d := ds[i]
		if d.Operation == pbsubstreams.StoreDelta_DELETE {
			delete(out, d.Key)
		} else {
			out[d.Key] = d.NewValue
		}
	}
	return out
}

// deltaOracle: C08's second sentence on the real code: deltas applied in order to the pre-block content
// give the post-block content; each delta's old value is the value just before it; ordinals are sorted.
func (e *Env) deltaOracle(n string, s store.Store) {
	pre := e.pre[n]
	ds := s.GetDeltas()
	cur := applyDeltasTo(pre, nil, 0)
	var lastOrd uint64
	for i, d := range ds {
		if d.Ordinal < lastOrd {
			e.Fail("C08/deltas-not-in-ordinal-order", fmt.Sprintf("delta %d has ordinal %d after %d", i, d.Ordinal, lastOrd))
		}
		lastOrd = d.Ordinal
		old, had := cur[d.Key]
		switch d.Operation {
		case pbsubstreams.StoreDelta_CREATE:
			if had {
				e.Fail("C08/delta-old-value", fmt.Sprintf("CREATE delta %d for key %q but the key existed", i, d.Key))
			}
		default:
			if !had || string(old) != string(d.OldValue) {
				e.Fail("C08/delta-old-value", fmt.Sprintf("delta %d key %q old=%q but value before it was %q (present=%v)", i, d.Key, d.OldValue, old, had))
			}
		}
		if d.Operation == pbsubstreams.StoreDelta_DELETE {
			delete(cur, d.Key)
		} else {
			cur[d.Key] = d.NewValue
		}
	}
	post := content(s)
	if e.showKV(cur, false) != e.showKV(post, false) {
		e.Fail("C08/deltas-do-not-give-post-state", fmt.Sprintf("pre+deltas=%s post=%s", e.showKV(cur, false), e.showKV(post, false)))
	}
}

// stableOracle: "a store's operations take effect in stable ordinal order" on the real code, for the policies whose
// effect is plain byte manipulation (set, set_if_not_exists, append): an independent reference applies the calls
// sorted by ordinal, ties in call order, to the pre-block content and must reach the store's post-block content.
func (e *Env) stableOracle(n string, s store.Store, ops []Op) {
	if e.Policy != "set" && e.Policy != "sine" && e.Policy != "append" {
		return
	}
	sorted := append([]Op{}, ops...)
	sort.SliceStable(sorted, func(i, j int) bool { return sorted[i].Ord < sorted[j].Ord })
	cur := map[string][]byte{}
	for k, v := range e.pre[n] {
		cur[k] = v
	}
	for _, o := range sorted {
		k := string(o.Key)
		switch o.Kind {
		case "del":
			for kk := range cur {
				if strings.HasPrefix(kk, k) {
					delete(cur, kk)
				}
			}
		case "set":
			cur[k] = o.Val
		case "sine":
			if _, ok := cur[k]; !ok {
				cur[k] = o.Val
			}
		case "app":
			cur[k] = append(append([]byte{}, cur[k]...), o.Val...)
		}
	}
	if got, want := e.showKV(content(s), false), e.showKV(cur, false); got != want {
		e.Fail("C08/ops-not-in-stable-ordinal-order", fmt.Sprintf("calls %s: store holds %s, applying them in stable ordinal order gives %s", ShowOps(ops), got, want))
	}
}

// readOracle: C08's first sentence on the real code, for one key and ordinal.
func (e *Env) readOracle(n string, s store.Store, ord uint64, key string) {
	pre := e.pre[n]
	ds := s.GetDeltas()
	upTo := 0
	for upTo < len(ds) && ds[upTo].Ordinal <= ord {
		upTo++
	}
	// with sorted ordinals "all operations with ordinal <= ord" is a prefix
	at := applyDeltasTo(pre, ds, upTo)
	post := applyDeltasTo(pre, ds, len(ds))
	strip := func(v []byte) []byte {
		if e.Policy == "setsum" && len(v) >= 4 && (string(v[:4]) == "sum:" || string(v[:4]) == "set:") {
			return v[4:]
		}
		return v
	}
	chk := func(what string, got []byte, found bool, want []byte, wantFound bool) {
		if found != wantFound || (found && string(got) != string(strip(want))) {
			e.Fail("C08/"+what+"-vs-deltas", fmt.Sprintf("%s(%d,%q) = (%q,%v) but the deltas give (%q,%v)", what, ord, key, got, found, strip(want), wantFound))
		}
	}
	v, f := s.GetFirst(key)
	w, wf := pre[key]
	chk("get_first", v, f, w, wf)
	v, f = s.GetLast(key)
	w, wf = post[key]
	chk("get_last", v, f, w, wf)
	v, f = s.GetAt(ord, key)
	w, wf = at[key]
	chk("get_at", v, f, w, wf)
	if s.HasFirst(key) != func() bool { _, x := s.GetFirst(key); return x }() {
		e.Fail("C08/has_first-vs-get_first", fmt.Sprintf("key %q", key))
	}
	if s.HasLast(key) != func() bool { _, x := s.GetLast(key); return x }() {
		e.Fail("C08/has_last-vs-get_last", fmt.Sprintf("key %q", key))
	}
	if s.HasAt(ord, key) != f {
		e.Fail("C08/has_at-vs-get_at", fmt.Sprintf("HasAt(%d,%q)=%v but GetAt found=%v", ord, key, s.HasAt(ord, key), f))
	}
	// the host interface readers must agree with the store's
	call := wasm.NewCall(&pbsubstreams.Clock{}, "reader", "entry", e.stats, []wasm.Argument{wasm.NewStoreReaderInput("mod", s, 0)})
	hv, hf := call.DoGetAt(0, ord, key)
	if hf != f || (f && string(hv) != string(v)) || call.DoHasAt(0, ord, key) != s.HasAt(ord, key) {
		e.Fail("C08/host-reader-vs-store", fmt.Sprintf("DoGetAt(%d,%q)", ord, key))
	}
}

// Step executes one protocol step and returns the canonical answer.
func (e *Env) Step(w []string) (res string) {
	if e.Dead {
		return "skipped"
	}
	defer func() {
		if r := recover(); r != nil {
			res = "panic"
			e.Dead = true
		}
	}()
	switch w[0] {
	case "blk":
		n := w[1]
		s := e.stores[n]
		e.flushTwin(n)
		ops := ParseOps(w[2])
		e.pre[n] = content(s)
		r := e.execBlock(s, ops)
		if r != "" {
			e.Dead = true
			return r
		}
		e.pending[n], e.hasPend[n] = ops, true
		e.deltaOracle(n, s)
		e.stableOracle(n, s, ops)
		return e.showDeltas(s.GetDeltas())
	case "rd":
		s := e.stores[w[1]]
		ord, key := common.Atou(w[2]), string(common.Unhex(w[3]))
		gf, ff := s.GetFirst(key)
		gl, fl := s.GetLast(key)
		ga, fa := s.GetAt(ord, key)
		e.readOracle(w[1], s, ord, key)
		return fmt.Sprintf("gf=%s gl=%s ga=%s hf=%v hl=%v ha=%v", ob(e.canonTyped(gf), ff), ob(e.canonTyped(gl), fl), ob(e.canonTyped(ga), fa),
			s.HasFirst(key), s.HasLast(key), s.HasAt(ord, key))
	case "st":
		return e.showState(w[1], e.stores[w[1]])
	case "ty":
		return e.showKV(content(e.stores[w[1]]), true)
	case "rp":
		n := w[1]
		s, t := e.stores[n], e.twins[n]
		if !e.hasPend[n] {
			return "bad-step"
		}
		log := e.lastLog[s] // what the executor wrote for the cached-output file
		e.hasPend[n] = false
		t.Reset()
		// the replay goes through the cached branch of the real exec.RunModule (getCachedOutput -> applyCachedOutput =
		// ApplyOps -> toModuleOutput -> the bytes handed to downstream modules), not through ApplyOps alone
		mo, outBytes, _, _, rerr := exec.RunModule(e.Ctx, exec.NewStoreModuleExecutor(
			exec.NewBaseExecutor(e.Ctx, "mod", 0, nil, false, nil, nil, "mod", nil), t), cachedGetter{log})
		if rerr != nil {
			return "err:" + classifyErr(rerr)
		}
		if _, full := t.(*store.FullKV); full {
			// what a downstream module reading this store in deltas mode receives
			ds := &pbsubstreams.StoreDeltas{}
			if err := proto.Unmarshal(outBytes, ds); err != nil || mo == nil || e.showDeltas(ds.StoreDeltas) != e.showDeltas(s.GetDeltas()) {
				e.Fail("C09/replay-output-bytes-differ", fmt.Sprintf("the output RunModule hands downstream after replaying the cached log decodes to %s (err %v), the execution produced %s", e.showDeltas(ds.StoreDeltas), err, e.showDeltas(s.GetDeltas())))
			}
		}
		out := e.showDeltas(t.GetDeltas()) + " " + e.showState(n, t)
		// C09 oracle on the real code
		if e.showDeltas(t.GetDeltas()) != e.showDeltas(s.GetDeltas()) {
			e.Fail("C09/replay-deltas-differ", fmt.Sprintf("original %s replay %s", e.showDeltas(s.GetDeltas()), e.showDeltas(t.GetDeltas())))
		}
		if e.showState(n, t) != e.showState(n, s) {
			e.Fail("C09/replay-state-differs", fmt.Sprintf("original %s replay %s", e.showState(n, s), e.showState(n, t)))
		}
		return out
	case "undo":
		n := w[1]
		e.flushTwin(n)
		for _, s := range []store.Store{e.stores[n], e.twins[n]} {
			s.ApplyDeltasReverse(s.GetDeltas())
			s.Reset()
		}
		// C03/C11 oracle: undo restores the pre-block content
		if got, want := e.showKV(content(e.stores[n]), false), e.showKV(e.pre[n], false); got != want {
			e.Fail("C11/undo-does-not-restore", fmt.Sprintf("after undo %s, before the block %s", got, want))
		}
		return "ok"
	case "new":
		e.stores["P"] = e.cfg.NewPartialKV(0, zap.NewNop())
		e.twins["P"] = e.cfg.NewPartialKV(0, zap.NewNop())
		e.hasPend["P"] = false
		return "ok"
	case "sl":
		n := w[1]
		e.flushTwin(n)
		for _, m := range []map[string]store.Store{e.stores, e.twins} {
			e.saveN += 10
			before := e.showKV(content(m[n]), false)
			switch s := m[n].(type) {
			case *store.FullKV:
				fi, fw, err := s.Save(e.saveN)
				if err != nil {
					panic(err)
				}
				if err := fw.Write(e.Ctx); err != nil {
					panic(err)
				}
				ns := e.cfg.NewFullKV(zap.NewNop())
				if err := ns.Load(e.Ctx, fi); err != nil {
					panic(err)
				}
				m[n] = ns
			case *store.PartialKV:
				fi, fw, err := s.Save(e.saveN)
				if err != nil {
					panic(err)
				}
				if err := fw.Write(e.Ctx); err != nil {
					panic(err)
				}
				ns := e.cfg.NewPartialKV(0, zap.NewNop())
				if err := ns.Load(e.Ctx, fi); err != nil {
					panic(err)
				}
				if strings.Join(ns.DeletedPrefixes, "\x00") != strings.Join(s.DeletedPrefixes, "\x00") {
					e.Fail("C10/deleted-prefixes-lost", "save/load changed the deleted prefixes")
				}
				m[n] = ns
			}
			if after := e.showKV(content(m[n]), false); after != before {
				e.Fail("C10/save-load-changes-content", fmt.Sprintf("before %s after %s", before, after))
			}
		}
		return "ok"
	case "mrg":
		n := w[1]
		e.flushTwin(n)
		e.flushTwin("P")
		p := e.stores["P"].(*store.PartialKV)
		tp := e.twins["P"].(*store.PartialKV)
		err := e.stores[n].(*store.FullKV).Merge(p)
		e.twins[n].(*store.FullKV).Merge(tp)
		if err != nil {
			e.Dead = true
			return "err:" + classifyErr(err)
		}
		// the twin partial may have been built by replaying cached operation logs: merging it must give
		// the same full store (this is where lost deleted prefixes would show)
		if a, b := e.showKV(content(e.stores[n]), false), e.showKV(content(e.twins[n]), false); a != b {
			e.Fail("C09/replayed-partial-merges-differently", fmt.Sprintf("original %s, with the replayed partial %s", a, b))
		}
		return "ok"
	}
	return "bad-step"
}

// cachedGetter: an execution-output buffer in which the store module's cached output (its operation log) is present
type cachedGetter struct{ log []byte }

func (cachedGetter) Len() int                   { return 1 }
func (cachedGetter) Clock() *pbsubstreams.Clock { return &pbsubstreams.Clock{Number: 1, Id: "1a"} }
func (g cachedGetter) Get(name string) ([]byte, bool, error) {
	if name == "mod" {
		return g.log, true, nil
	}
	return nil, false, execout.ErrNotFound
}

// Run executes a whole history line and returns the canonical answer line.
func Run(ctx context.Context, dir, line string, fail func(class, desc string)) string {
	parts := strings.Split(line, " ; ")
	h := strings.Fields(parts[0])
	govt := h[1]
	if len(h) > 5 {
		govt = h[5]
	}
	e := NewEnv(ctx, dir, h[0], h[1], govt, common.Atou(h[2]), common.Atou(h[3]), common.Atou(h[4]))
	e.Fail = fail
	outs := make([]string, 0, len(parts)-1)
	for _, st := range parts[1:] {
		outs = append(outs, e.Step(strings.Fields(st)))
	}
	return strings.Join(outs, " | ")
}

var _ = decimal.Zero

// Package common: plumbing shared by the per-property harness commands (vh_cXX).
//
// A harness command runs the REAL code of /repo on generated cases and writes, into -out DIR:
//
//	cases.txt   one case per line (line protocol read by the Lean driver svd_cXX)
//	impl.txt    the implementation's canonical answer for each case (same number of lines)
//	oracle.json statistics + failures of the property's own predicate evaluated on the real code
//
// The check driver (/verif/check) runs the Lean model on cases.txt and diffs it with impl.txt.
package common

import (
	"bufio"
	"encoding/hex"
	"encoding/json"
	"flag"
	"fmt"
	"hash/fnv"
	"os"
	"path/filepath"
	"sort"
	"strconv"
	"strings"
)

// ---------------------------------------------------------------- PRNG (splitmix64; everything random derives from it)

type Rng struct{ s uint64 }

func NewRng(seed uint64) *Rng { return &Rng{s: seed*0x9E3779B97F4A7C15 + 0x1234567} }

func (r *Rng) U64() uint64 {
	r.s += 0x9E3779B97F4A7C15
	z := r.s
	z = (z ^ (z >> 30)) * 0xBF58476D1CE4E5B9
	z = (z ^ (z >> 27)) * 0x94D049BB133111EB
	return z ^ (z >> 31)
}
func (r *Rng) Intn(n int) int {
	if n <= 0 {
		return 0
	}
	return int(r.U64() % uint64(n))
}
func (r *Rng) Range(lo, hi int) int { return lo + r.Intn(hi-lo+1) } // inclusive
func (r *Rng) Bool() bool           { return r.U64()&1 == 1 }
func (r *Rng) Chance(num, den int) bool {
	return r.Intn(den) < num
}
func (r *Rng) Fork() *Rng { return NewRng(r.U64()) }

// ---------------------------------------------------------------- options

type Opts struct {
	Seed   uint64
	Tier   string // quick | thorough
	Out    string
	Replay string // a cases file to re-run instead of generating
	Extra  string
	Corpus string // a cases file of past failures (minimised witnesses of repaired defects, seeded changes): run first, then generate
}

func ParseFlags() *Opts {
	o := &Opts{}
	var seed int64
	flag.Int64Var(&seed, "seed", 1, "PRNG seed")
	flag.StringVar(&o.Tier, "tier", "quick", "quick|thorough")
	flag.StringVar(&o.Out, "out", "", "output directory")
	flag.StringVar(&o.Replay, "replay", "", "replay this cases file instead of generating")
	flag.StringVar(&o.Extra, "extra", "", "property specific option")
	flag.StringVar(&o.Corpus, "corpus", "", "cases file of past failures, run before the generated cases")
	flag.Parse()
	o.Seed = uint64(seed)
	if o.Out == "" {
		fmt.Fprintln(os.Stderr, "-out required")
		os.Exit(2)
	}
	if err := os.MkdirAll(o.Out, 0o755); err != nil {
		panic(err)
	}
	return o
}

func (o *Opts) Thorough() bool { return o.Tier == "thorough" }

// CorpusLines returns the case lines of the -corpus file (nil when there is none).
func (o *Opts) CorpusLines() []string {
	if o.Corpus == "" {
		return nil
	}
	if _, err := os.Stat(o.Corpus); err != nil {
		return nil
	}
	save := o.Replay
	o.Replay = o.Corpus
	defer func() { o.Replay = save }()
	return o.ReplayLines()
}

// Scen names one generated scenario of a system-level harness: "SCEN <seed> <idx> <tier>".
type Scen struct {
	Seed  uint64
	Idx   int
	Tier  string
	Fixed string // encoded scenario (world + request) overriding the generated one; "" = as generated
}

func (s Scen) String() string {
	if s.Fixed != "" {
		return fmt.Sprintf("SCEN %d %d %s %s", s.Seed, s.Idx, s.Tier, s.Fixed)
	}
	return fmt.Sprintf("SCEN %d %d %s", s.Seed, s.Idx, s.Tier)
}

// ParseScen: "<KIND> seed idx tier [encoded-scenario]"
func ParseScen(kind, l string) (Scen, bool) {
	f := strings.Fields(l)
	if len(f) < 4 || f[0] != kind {
		return Scen{}, false
	}
	sc := Scen{Seed: Atou(f[1]), Idx: Atoi(f[2]), Tier: f[3]}
	if len(f) >= 5 {
		sc.Fixed = f[4]
	}
	return sc, true
}

// Scens: the corpus scenarios (kind = first word of their lines, "SCEN" by default) followed by n generated ones.
func (o *Opts) Scens(kind string, n int) []Scen {
	var out []Scen
	seen := map[string]bool{}
	for _, l := range o.CorpusLines() {
		if sc, ok := ParseScen(kind, l); ok {
			if !seen[sc.String()] {
				seen[sc.String()] = true
				out = append(out, sc)
			}
		}
	}
	for i := 0; i < n; i++ {
		sc := Scen{Seed: o.Seed, Idx: i, Tier: o.Tier}
		if !seen[sc.String()] {
			out = append(out, sc)
		}
	}
	return out
}

// ReplayLines returns the case lines of the -replay file (nil when not replaying).
func (o *Opts) ReplayLines() []string {
	if o.Replay == "" {
		return nil
	}
	b, err := os.ReadFile(o.Replay)
	if err != nil {
		panic(err)
	}
	var out []string
	for _, l := range strings.Split(string(b), "\n") {
		l = strings.TrimSpace(l)
		if l == "" || strings.HasPrefix(l, "#") {
			continue
		}
		out = append(out, l)
	}
	return out
}

// ---------------------------------------------------------------- output

type Failure struct {
	Class string `json:"class"` // narrow witness class, matched against known_findings.json
	Desc  string `json:"desc"`
	Case  string `json:"case"` // the case line (or lines separated by \n) that replays it
}

type Out struct {
	dir        string
	cases      *bufio.Writer
	impl       *bufio.Writer
	fc, fi     *os.File
	N          int
	nontrivial map[uint64]struct{}
	Dist       map[string]int
	Failures   []Failure
	Samples    []string
	Rule       string
	Notes      []string
	maxFail    int
}

func NewOut(dir string) *Out {
	fc, err := os.Create(filepath.Join(dir, "cases.txt"))
	if err != nil {
		panic(err)
	}
	fi, err := os.Create(filepath.Join(dir, "impl.txt"))
	if err != nil {
		panic(err)
	}
	return &Out{dir: dir, fc: fc, fi: fi, cases: bufio.NewWriterSize(fc, 1<<20), impl: bufio.NewWriterSize(fi, 1<<20),
		nontrivial: map[uint64]struct{}{}, Dist: map[string]int{}, maxFail: 50}
}

// Case records one correspondence case: the protocol line and the implementation's canonical answer.
// nontrivial says whether the case counts as non-trivial by the property's stated rule.
func (o *Out) Case(line, implAnswer string, nontrivial bool) {
	if strings.ContainsAny(line, "\n\r") || strings.ContainsAny(implAnswer, "\n\r") {
		panic("newline in protocol line: " + line)
	}
	o.cases.WriteString(line)
	o.cases.WriteByte('\n')
	o.impl.WriteString(implAnswer)
	o.impl.WriteByte('\n')
	o.N++
	if nontrivial {
		h := fnv.New64a()
		h.Write([]byte(line))
		o.nontrivial[h.Sum64()] = struct{}{}
	}
	if len(o.Samples) < 5 && (o.N%9973 == 1 || o.N <= 2) {
		o.Samples = append(o.Samples, line+"  =>  "+implAnswer)
	}
}

// Count bumps a distribution counter (printed into the evidence).
func (o *Out) Count(key string) { o.Dist[key]++ }

// Fail records a failure of the property's predicate on the real code.
func (o *Out) Fail(class, desc, caseLine string) {
	if len(o.Failures) < o.maxFail {
		o.Failures = append(o.Failures, Failure{class, desc, caseLine})
	}
	o.Dist["oracle-fail:"+class]++
}

func (o *Out) Finish() {
	o.cases.Flush()
	o.impl.Flush()
	o.fc.Close()
	o.fi.Close()
	keys := make([]string, 0, len(o.Dist))
	for k := range o.Dist {
		keys = append(keys, k)
	}
	sort.Strings(keys)
	res := map[string]any{
		"evaluations":         o.N,
		"distinct_nontrivial": len(o.nontrivial),
		"rule":                o.Rule,
		"samples":             o.Samples,
		"distribution":        o.Dist,
		"failures":            o.Failures,
		"notes":               o.Notes,
	}
	b, _ := json.MarshalIndent(res, "", " ")
	if err := os.WriteFile(filepath.Join(o.dir, "oracle.json"), b, 0o644); err != nil {
		panic(err)
	}
}

// ---------------------------------------------------------------- small helpers

func Hex(b []byte) string {
	if len(b) == 0 {
		return "-"
	}
	return hex.EncodeToString(b)
}
func Unhex(s string) []byte {
	if s == "-" || s == "" {
		return nil
	}
	b, err := hex.DecodeString(s)
	if err != nil {
		panic(err)
	}
	return b
}
func Atoi(s string) int {
	n, err := strconv.Atoi(s)
	if err != nil {
		panic(err)
	}
	return n
}
func Atou(s string) uint64 {
	n, err := strconv.ParseUint(s, 10, 64)
	if err != nil {
		panic(err)
	}
	return n
}

// Recover runs f and maps a panic to ("panic", true).
func Recover(f func() string) (res string, panicked bool) {
	defer func() {
		if r := recover(); r != nil {
			res = "panic"
			panicked = true
		}
	}()
	return f(), false
}

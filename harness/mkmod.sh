#!/bin/sh
# (re)generate go.mod/go.sum of the harness from /repo's (same dependency versions, replace => /repo)
set -e
cd "$(dirname "$0")"
REPO=${VERIF_REPO:-/repo}
sed -e 's#^module .*#module verifharness#' "$REPO/go.mod" > go.mod.new
printf '\nrequire github.com/streamingfast/substreams v0.0.0\nreplace github.com/streamingfast/substreams => %s\n' "$REPO" >> go.mod.new
if ! cmp -s go.mod.new go.mod 2>/dev/null; then mv go.mod.new go.mod; else rm go.mod.new; fi
cmp -s "$REPO/go.sum" go.sum 2>/dev/null || cp "$REPO/go.sum" go.sum

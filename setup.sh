#!/bin/sh
# MANIFEST.setup_cmd: build the framework offline from files on disk (Lean proofs + drivers, Go harness).
set -e
cd "$(dirname "$0")"
export GOFLAGS=-mod=mod GOPROXY=off GOSUMDB=off GOTOOLCHAIN=local
mkdir -p .work/bin lean/Generated
for f in checks/*.json; do
  [ -f "$f" ] || continue
  python3 - "$f" <<'PY' | while read -r cmd; do sh -c "$cmd" || true; done
import json,sys
for c in json.load(open(sys.argv[1])).get("pre",[]): print(c)
PY
done
(cd lean && lake build $(ls Props/*.lean | sed 's#/#.#; s#\.lean$##') $(ls Driver/C*.lean | sed 's#Driver/C#svd_c#; s#\.lean$##'))
sh harness/mkmod.sh
for d in harness/cmd/*/; do n=$(basename "$d"); (cd harness && go build -tags verif -o ../.work/bin/$n ./cmd/$n); done
echo setup done

#!/bin/sh
# MANIFEST.setup_cmd: build the framework offline from files on disk (Lean proofs + drivers, Go harness).
# Every ./check rebuilds what it needs anyway; this only warms the caches, so one broken target must not stop the rest.
cd "$(dirname "$0")"
export GOFLAGS=-mod=mod GOPROXY=off GOSUMDB=off GOTOOLCHAIN=local
mkdir -p .work/bin lean/Generated
sh harness/mkmod.sh
for f in checks/*.json; do
  [ -f "$f" ] || continue
  python3 - "$f" <<'PY' | while read -r cmd; do sh -c "$cmd" || echo "setup: pre-step failed: $cmd"; done
import json,sys
for c in json.load(open(sys.argv[1])).get("pre",[]): print(c)
PY
done
for p in $(python3 -c "import json;print(' '.join(c['property_id'] for c in json.load(open('MANIFEST.json'))['checks']))"); do
  l=$(echo "$p" | tr 'A-Z' 'a-z')
  (cd lean && lake build Props.$p svd_$l) || echo "setup: lake build failed for $p"
  if [ -d harness/cmd/vh_$l ]; then (cd harness && go build -tags verif -o ../.work/bin/vh_$l ./cmd/vh_$l) || echo "setup: go build failed for $p"; fi
done
echo setup done

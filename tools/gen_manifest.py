#!/usr/bin/env python3
"""Regenerate /verif/MANIFEST.json from the table below (one entry per claimed property)."""
import json, os
V = os.path.dirname(os.path.dirname(os.path.abspath(__file__)))
props = [json.loads(l) for l in open(os.path.join(V, "properties.jsonl"))]

TECH = "Lean 4 theorems over a hand-written executable model + differential correspondence check and property oracle on the real code"
CLAIMED = {
 "C13": dict(
  text="18 Lean theorems (tiling, contiguity, alignment, closed form, index functions, Count, Split, Merged/MergedBuckets) for every interval>0, init<end, index and block, no bound; the model is tied to block/*.go by a ~1M-case exhaustive+seeded correspondence run and a tiling oracle on the real Segmenter on every run",
  note="Trusted: Lean kernel; propext/Classical.choice/Quot.sound; harness+generator; uint64 modelled as Nat under init<end (no wrap-around); the statements in lean/Props/C13.lean render the property"),
 "C08": dict(
  text="12 Lean theorems: for every configuration, every value semantics of the numeric policies (a parameter), every pre-block state and every list of calls with arbitrary ordinals: the log is applied in stable ordinal order, deltas are ordinal-sorted, chain from the pre- to the post-block content with correct old values, get_first/get_last/get_at equal the delta semantics (get_at = content after exactly the deltas of ordinal <= ord), has_* = found. Tie: seeded histories through the real wasm.Call.Do* host interface, Flush, GetDeltas and the six readers vs the compiled model; oracle recomputes the reads from the real deltas",
  note="Trusted: Lean kernel + 3 standard axioms; harness/generator; Go maps modelled as association lists with distinct keys; float64 texts outside the model (bit patterns compared); protobuf/strconv/math-big/shopspring libraries assumed to behave as modelled in Model/Policy.lean (exercised by the correspondence)"),
 "C09": dict(
  text="5 Lean theorems: replaying the recorded (stably sorted) operation log on a store in the same pre-block state yields exactly the same store (content, deltas, size, log) — full stores, chains of blocks, and partial stores including the remembered deleted prefixes as a set; for every configuration, value semantics, state and call list. Tie: real ReadOps -> protobuf bytes -> ApplyOps on a lagging twin store, full and partial, followed by a merge of the replayed partial",
  note="Trusted: as C08; proto.Marshal/Unmarshal of the Operations message assumed lossless (exercised on every case); 'same pre-block state' is equality of the model's association list (the twin executed the same history)"),
 "C11": dict(
  text="5 Lean theorems: size = total length of keys and values after every history of blocks, undos of the most recent applied blocks (incl. undo-redo-undo of the same block), finality, merges of partial stores (all policies and value types) and save/load, by an invariant over all reachable states; undo restores the pre-block content; no size update underflows; ApplyDelta rejects as too big iff the real content exceeds the limit. Tie: real SizeBytes vs Iter after every step of seeded histories incl. lowered limits (verif hook)",
  note="Trusted: as C08; merge is modelled on a store at rest (Reset first); the limit is only checked where the code checks it (ApplyDelta), merges do not check it; float64 text lengths are outside the model (the size oracle on the real code still covers them)"),
}
CLAIMED["C16"] = dict(
  text="24 Lean theorems over the retry/classification state machine of RemoteWorker.Work/work() and the two error tables (tier2 toGRPCError, tier1 toConnectError), for arbitrary retry/time-out budgets and instantiated at the constants and tables EXTRACTED from the current source on every run: transient faults (<= maxRetries) followed by a complete attempt give success in #faults+1 attempts; fatal/deterministic failures are not retried and are invalid-argument end to end (composition of the three tables); bounded attempts, success only after a cleanly completed attempt (no silent truncation), cancellation stops; abstract file theorem (failed attempts followed by a complete one leave the fault-free files). PARTIAL: the gRPC transport, timers and the end-to-end equality of outputs are exercised (real worker against scripted streams and against the real Tier2Service.ProcessRange over bufconn) but not proved",
  note="Trusted: Lean kernel + 3 standard axioms; the go/ast extractor (harness/cmd/extract_c16) that regenerates lean/Generated/ConstsC16.lean; harness and scripted gRPC fakes; grpc-go delivers status codes unchanged and returns io.EOF only on a nil handler return; back-off sleeps are real (not shortened); see checks/C16.json assumptions",
  technique="Lean 4 theorems over an executable model of the retry machine, instantiated at constants/tables regenerated from the source by a go/ast extractor + differential correspondence against the real worker and tables")
NA_REASON = "check not built yet in this session (planned, see DESIGN.md §11); not a claim that the technique cannot apply"

def chk(pid, d):
    return {"property_id": pid, "quick_cmd": f"./check {pid} --tier quick", "thorough_cmd": f"./check {pid} --tier thorough",
            "evidence_file": f"/verif/evidence/{pid}.json", "replay_cmd_template": f"./check {pid} --replay {{path}}",
            "engine": "lean-proof+correspondence",
            "level_claimed": {"category": d.get("category", "proof"), "text": d["text"], "design_ref": "DESIGN.md §6/" + pid},
            "level_note": d["note"], "technique": d.get("technique", TECH)}

hooks = []
hp = os.path.join(V, "hooks.json")
if os.path.exists(hp): hooks = json.load(open(hp))
m = {"version": 1, "setup_cmd": "./setup.sh",
     "hooks": {"guard": "verif", "enable": "go build -tags verif (harness module /verif/harness with replace => /repo); hook files are /repo/**/verif_hooks*.go with //go:build verif",
               "baseline_off_cmd": "cd /repo && go test -mod=mod -vet=off -count=1 -timeout 25m ./...",
               "source_commits": hooks, "add_only": True},
     "engines": [{"name": "lean-proof+correspondence", "path": "/verif/check", "serves_properties": sorted(CLAIMED),
                  "kind_free_text": "Lean 4 (core) theorems about executable models in /verif/lean; Go harness in /verif/harness runs the real code and the compiled model on the same cases and evaluates the property's predicate on the real code"}],
     "checks": [chk(p, CLAIMED[p]) for p in sorted(CLAIMED)],
     "not_applicable": [{"property_id": p["id"], "reason": NA_REASON} for p in props if p["id"] not in CLAIMED],
     "notes": "see DESIGN.md; known findings in known_findings.json; seeded mutations in seeded/"}
json.dump(m, open(os.path.join(V, "MANIFEST.json"), "w"), indent=1)
print("claimed:", sorted(CLAIMED))

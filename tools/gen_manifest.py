#!/usr/bin/env python3
"""Regenerate /verif/MANIFEST.json from the table below (one entry per claimed property)."""
import json, os
V = os.path.dirname(os.path.dirname(os.path.abspath(__file__)))
props = [json.loads(l) for l in open(os.path.join(V, "properties.jsonl"))]

TECH = "Lean 4 theorems over a hand-written executable model + differential correspondence check and property oracle on the real code"
CLAIMED = {
 "C13": dict(
  text="18 Lean theorems (tiling, contiguity, alignment, closed form, index functions, Count, Split, Merged/MergedBuckets) for every interval>0, init<end, index and block, no bound; the model is tied to block/*.go by a ~1M-case exhaustive+seeded correspondence run and a tiling oracle on the real Segmenter on every run",
  note="Trusted: Lean kernel; propext/Classical.choice/Quot.sound; harness+generator; uint64 modelled as Nat under init<end (no wrap-around); the statements in lean/Props/C13.lean render the property"),
 "C08": dict(
  text="12 Lean theorems: for every configuration, every value semantics of the numeric policies (a parameter), every pre-block state and every list of calls with arbitrary ordinals: the log is applied in stable ordinal order, deltas are ordinal-sorted, chain from the pre- to the post-block content with correct old values, get_first/get_last/get_at equal the delta semantics (get_at = content after exactly the deltas of ordinal <= ord), has_* = found. Tie: seeded histories through the real wasm.Call.Do* host interface, Flush, GetDeltas and the six readers vs the compiled model; oracle recomputes the reads from the real deltas",
  note="Trusted: Lean kernel + 3 standard axioms; harness/generator; Go maps modelled as association lists with distinct keys; float64 texts outside the model (bit patterns compared); protobuf/strconv/math-big/shopspring libraries assumed to behave as modelled in Model/Policy.lean (exercised by the correspondence)"),
 "C09": dict(
  text="5 Lean theorems: replaying the recorded (stably sorted) operation log on a store in the same pre-block state yields exactly the same store (content, deltas, size, log) — full stores, chains of blocks, and partial stores including the remembered deleted prefixes as a set; for every configuration, value semantics, state and call list. Tie: real ReadOps -> protobuf bytes -> ApplyOps on a lagging twin store, full and partial, followed by a merge of the replayed partial",
  note="Trusted: as C08; proto.Marshal/Unmarshal of the Operations message assumed lossless (exercised on every case); 'same pre-block state' is equality of the model's association list (the twin executed the same history)"),
 "C11": dict(
  text="5 Lean theorems: size = total length of keys and values after every history of blocks, undos of the most recent applied blocks (incl. undo-redo-undo of the same block), finality, merges of partial stores (all policies and value types) and save/load, by an invariant over all reachable states; undo restores the pre-block content; no size update underflows; ApplyDelta rejects as too big iff the real content exceeds the limit. Tie: real SizeBytes vs Iter after every step of seeded histories incl. lowered limits (verif hook)",
  note="Trusted: as C08; merge is modelled on a store at rest (Reset first); the limit is only checked where the code checks it (ApplyDelta), merges do not check it; float64 text lengths are outside the model (the size oracle on the real code still covers them)"),
}
CLAIMED["C16"] = dict(
  text="24 Lean theorems over the retry/classification state machine of RemoteWorker.Work/work() and the two error tables (tier2 toGRPCError, tier1 toConnectError), for arbitrary retry/time-out budgets and instantiated at the constants and tables EXTRACTED from the current source on every run: transient faults (<= maxRetries) followed by a complete attempt give success in #faults+1 attempts; fatal/deterministic failures are not retried and are invalid-argument end to end (composition of the three tables); bounded attempts, success only after a cleanly completed attempt (no silent truncation), cancellation stops; abstract file theorem (failed attempts followed by a complete one leave the fault-free files). PARTIAL: the gRPC transport, timers and the end-to-end equality of outputs are exercised (real worker against scripted streams and against the real Tier2Service.ProcessRange over bufconn) but not proved",
  note="Trusted: Lean kernel + 3 standard axioms; the go/ast extractor (harness/cmd/extract_c16) that regenerates lean/Generated/ConstsC16.lean; harness and scripted gRPC fakes; grpc-go delivers status codes unchanged and returns io.EOF only on a nil handler return; back-off sleeps are real (not shortened); see checks/C16.json assumptions",
  technique="Lean 4 theorems over an executable model of the retry machine, instantiated at constants/tables regenerated from the source by a go/ast extractor + differential correspondence against the real worker and tables")
CLAIMED["C02"] = dict(
  text="Lean theorems (Layer A, full): for every policy (set, set_if_not_exists, append, add/min/max over any associative combination, set_sum), every list of per-key events (writes in stable ordinal order, matching delete_prefix) and EVERY cut into consecutive segments, merging the partial states of the segments in order equals sequential application; value-type instances: int64 with wrap-around, bigint, bigdecimal addition (associativity proved), min/max. Layer B (refinement of the byte-level model Model/Store+Policy+Merge to these algebras) is in Lemmas/SquashRefine.lean as far as proved. float64 add is proved only under associativity (partial) and is a recorded known finding. Tie: sequential full store vs squashed store built from per-segment PartialKVs through wasm.Call.Do*, Save, Load, Merge, for all 22 host-admitted (policy,value type) pairs and every cut of up to 5 blocks, compared step by step with the compiled model; oracle compares typed contents on the real code",
  note="Trusted: Lean kernel + 3 standard axioms; harness/generator; text codecs of Model/Policy.lean stand for strconv/math-big/shopspring (byte-exact for int64/bigint/bigdecimal, exercised on every case); float texts compared through IEEE bit patterns; theorem assumes limits are not hit; known finding C02/add/float64/association-order")
CLAIMED["C12"] = dict(
  text="23 Lean theorems for arbitrary segment size, block numbers, store lists in any order and cursor shapes: plan partition (ReadExecOut = [start,min(handoff,stop)), LinearPipeline = [handoff,stop), gate, no gap/overlap), stores built exactly up to the hand-off, hand-off on a segment boundary whenever something is back-filled (every return path characterised), hand-off independent of module order, every unit handed to a job = the range tier2 recomputes from (segment number, size), jobs cover everything below the hand-off, impossible requests are errors, forked/not-forked/final cursors. Tie: real BuildRequestDetails, BuildTier1RequestPlan, plan segmenters, ValidateRequestStartBlock and (slice T1) the unchanged Tier1Service.blocks on ~2.2M cases (quick) incl. every ordered module configuration of the small grid",
  note="Trusted: Lean kernel + 3 standard axioms; harness/generator; cursors are opaque tokens with fromOpaque(toOpaque c)=c; resolver answers are parameters; ~12 prelude lines of tier1.blocks are replicated in the harness and tied back by slice T1 (hook service/verif_hooks_c12.go)")
CLAIMED["C14"] = dict(
  text="16 Lean theorems for every list of modules that passes validation (distinct names, references resolve), every output module, no bound on the graph: staging terminates (fuel 2n+2 suffices), the staged modules are exactly the ancestor closure of the output and each is in exactly one layer, every map/store-get/store-deltas/block-filter dependency is in a strictly earlier layer, layers are homogeneous (stores or non-stores) and non-empty, a store layer closes its stage, accepted iff every module has an input existing at its initial block. Tie: seeded DAGs up to 12 modules incl. 14 malformed mutation kinds through real ValidateModules + exec.NewOutputModuleGraph; layers compared as sets",
  note="Trusted: Lean kernel + 3 standard axioms; harness/generator; yourbasic/graph (Acyclic, ShortestPaths, TopSort) modelled as specified functions (acyclicity check, reachability); order inside a layer comes from the external TopSort and is not compared")
CLAIMED["C15"] = dict(
  text="21 Lean theorems: for every filter expression the parser can produce (characterised by a decidable predicate, proved for all token lists), every key-to-block assignment and every block: selected by the pre-computed index iff the block's own keys satisfy the filter (both evaluators = the boolean meaning), optimizer preserves both, parser total with fuel 3n+2, skip decision pre-computed = on the fly = not holds for the index EndOfStream writes, also on blocks without index output (present / absent / being built). Tie: real lexer tokens, sqe.Parse, optimizer, RoaringBitmapsApply evaluated 3x over shared bitmaps, KeysApply, real cache.Engine index build + File.Load, exec.RunModule skip decisions, and the real Tier1 service end to end with a scripted runtime",
  note="Trusted: Lean kernel + 3 standard axioms; harness/generator; roaring bitmaps modelled as finite sets of block numbers; the lexer regexp is re-implemented byte-wise in the model and compared with the real tokens through hook sqe/verif_hooks.go; two lines of BuildModuleExecutors (bitmap precomputation) replicated in the harness")
NA_REASON = "check not built yet in this session (planned, see DESIGN.md §11); not a claim that the technique cannot apply"

def chk(pid, d):
    return {"property_id": pid, "quick_cmd": f"./check {pid} --tier quick", "thorough_cmd": f"./check {pid} --tier thorough",
            "evidence_file": f"/verif/evidence/{pid}.json", "replay_cmd_template": f"./check {pid} --replay {{path}}",
            "engine": "lean-proof+correspondence",
            "level_claimed": {"category": d.get("category", "proof"), "text": d["text"], "design_ref": "DESIGN.md §6/" + pid},
            "level_note": d["note"], "technique": d.get("technique", TECH)}

hooks = []
hp = os.path.join(V, "hooks.json")
if os.path.exists(hp): hooks = json.load(open(hp))
m = {"version": 1, "setup_cmd": "./setup.sh",
     "hooks": {"guard": "verif", "enable": "go build -tags verif (harness module /verif/harness with replace => /repo); hook files are /repo/**/verif_hooks*.go with //go:build verif",
               "baseline_off_cmd": "cd /repo && go test -mod=mod -vet=off -count=1 -timeout 25m ./...",
               "source_commits": hooks, "add_only": True},
     "engines": [{"name": "lean-proof+correspondence", "path": "/verif/check", "serves_properties": sorted(CLAIMED),
                  "kind_free_text": "Lean 4 (core) theorems about executable models in /verif/lean; Go harness in /verif/harness runs the real code and the compiled model on the same cases and evaluates the property's predicate on the real code"}],
     "checks": [chk(p, CLAIMED[p]) for p in sorted(CLAIMED)],
     "not_applicable": [{"property_id": p["id"], "reason": NA_REASON} for p in props if p["id"] not in CLAIMED],
     "notes": "see DESIGN.md; known findings in known_findings.json; seeded mutations in seeded/"}
json.dump(m, open(os.path.join(V, "MANIFEST.json"), "w"), indent=1)
print("claimed:", sorted(CLAIMED))

#!/bin/sh
# tools/seed_confirm.sh <worktree> <seed-id>: confirm a sub-agent's seeded change in its scratch worktree
# (patch applied there, demo present) and copy it to /verif/seeded/<seed-id>/ with what was run.
set -u
WT=$1; ID=$2
export GOFLAGS=-mod=mod GOPROXY=off GOSUMDB=off GOTOOLCHAIN=local
cd "$WT" || exit 2
DEMO=$(python3 -c "import json;print(json.load(open('.mut/meta.json'))['demo_cmd'].replace('<WT>','$WT'))")
echo "demo: $DEMO"
git apply -R --check .mut/patch.diff 2>/dev/null || { echo "patch is not applied in the worktree"; exit 2; }
sh -c "$DEMO" > .mut/with.log 2>&1; W=$?
git apply -R .mut/patch.diff
sh -c "$DEMO" > .mut/without.log 2>&1; WO=$?
git apply .mut/patch.diff
go build ./... > .mut/build.log 2>&1; B=$?
go test -vet=off -count=1 ./... > .mut/suite.log 2>&1
FAILS=$(grep -E "^(FAIL|---)" .mut/suite.log | grep -v "info" | grep -E "^FAIL|--- FAIL" | grep -v "$(basename "$(echo "$DEMO" | sed -n 's/.*-run \([A-Za-z0-9_]*\).*/\1/p')" 2>/dev/null)" | head -5)
echo "with patch: demo exit $W (want != 0); without: $WO (want 0); build: $B; other suite failures: [$FAILS]"
python3 - "$WT" "$ID" "$W" "$WO" "$B" <<'PY'
import json,sys,os,shutil,re
wt,sid,w,wo,b=sys.argv[1:6]
suite=open(os.path.join(wt,'.mut/suite.log')).read()
meta=json.load(open(os.path.join(wt,'.mut/meta.json')))
demo_run=re.search(r'-run\s+(\S+)',meta['demo_cmd'])
# packages failing in the suite with the patch: only the demo's own package (because the demo test fails) and info are acceptable
fail_pk=[l.split()[1] for l in suite.splitlines() if l.startswith('FAIL\t')]
demo_pkgs=set()
for root,_,files in os.walk(os.path.join(wt,'.mut','demo')):
    pass
ok = (w!='0') and (wo=='0') and (b=='0')
dst=f'/verif/seeded/{sid}'
print('confirmed' if ok else 'NOT CONFIRMED', 'failing packages with patch:', fail_pk)
if ok:
    os.makedirs(dst,exist_ok=True)
    shutil.copy(os.path.join(wt,'.mut/patch.diff'),dst)
    if os.path.isdir(os.path.join(dst,'demo')): shutil.rmtree(os.path.join(dst,'demo'))
    shutil.copytree(os.path.join(wt,'.mut/demo'),os.path.join(dst,'demo'))
    meta['confirmed_by_me']={'demo_with_patch_exit':int(w),'demo_without_patch_exit':int(wo),'go_build':int(b),'suite_failing_packages_with_patch_and_demo_present':fail_pk,
      'what_i_ran':'in the sub-agent scratch worktree: demo with the patch (fails), git apply -R, demo without (passes), re-apply, go build ./..., go test -vet=off -count=1 ./... (only the demo own package — because of the demo test itself — and the two network tests of package info may fail)'}
    json.dump(meta,open(os.path.join(dst,'meta.json'),'w'),indent=1)
PY

#!/bin/sh
# tools/sweep.sh <seed> [tier]: run every claimed check once with VERIF_SEED=<seed>; print one line per check
cd "$(dirname "$0")/.."
SEED=${1:-1}; TIER=${2:-quick}
for p in $(python3 -c "import json;print(' '.join(c['property_id'] for c in json.load(open('MANIFEST.json'))['checks']))"); do
  VERIF_SEED=$SEED ./check $p --tier $TIER 2>&1 | grep -E "^(VIOLATION|$p:)" | cut -c1-260
done

"""helpers shared by seed_eval.py and fix_regress.py: harvest witnesses of a run against another tree into corpus/<id>.txt"""
import os, re

V = os.path.dirname(os.path.dirname(os.path.abspath(__file__)))


def harvest(prop, violation_lines, source, cap=2):
    """prop: property id; violation_lines: VIOLATION lines of the run; source: text for the comment line.
    Scenario lines that carry their own world encoding (SCEN/SYSF seed idx tier <enc>) are appended to corpus/<prop>.txt."""
    found = []
    for v in violation_lines:
        m = re.search(r"replay=(\S+)", v)
        if not m or not os.path.exists(m.group(1)) or not m.group(1).endswith(".case"): continue
        for l in open(m.group(1)):
            f = l.split()
            if len(f) >= 5 and f[0] in ("SCEN", "SYSF") and l.strip() not in found:
                found.append(l.strip())
    if not found: return 0
    os.makedirs(os.path.join(V, "corpus"), exist_ok=True)
    p = os.path.join(V, "corpus", prop + ".txt")
    have = open(p).read() if os.path.exists(p) else ""
    if ("# " + source + "\n") in have: return 0
    new = [l for l in found if l not in have][:cap]
    if not new: return 0
    with open(p, "a") as fh:
        fh.write("# " + source + "\n")
        for l in new: fh.write(l + "\n")
    return len(new)

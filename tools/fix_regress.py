#!/usr/bin/env python3
"""
tools/fix_regress.py [<commit> ...] [--tier quick]

For every `fixed` entry of known_findings.json: a scratch worktree of /repo's HEAD with that one fix commit reverted
(`git revert --no-commit`), the check of the entry's property pointed at it (VERIF_REPO) — the defect must be reported
again ("a fixed entry suppresses nothing").  /repo itself is never touched; the worktree is removed afterwards.
Results: fix_regress.json + a table on stdout.
"""
import json, os, subprocess, sys, time
sys.path.insert(0, os.path.dirname(os.path.abspath(__file__)))
from corpus import harvest

V = os.path.dirname(os.path.dirname(os.path.abspath(__file__)))
REPO = "/repo"


def sh(cmd, **kw):
    return subprocess.run(cmd, stdout=subprocess.PIPE, stderr=subprocess.STDOUT, text=True, **kw)


def main():
    tier = "quick"
    skip = []
    args = []
    it = iter(sys.argv[1:])
    for a in it:
        if a == "--tier": tier = next(it)
        elif a == "--skip-props": skip = next(it).split(",")
        else: args.append(a)
    kf = json.load(open(os.path.join(V, "known_findings.json")))["findings"]
    by_commit = {}
    for f in kf:
        if f["status"] == "fixed":
            by_commit.setdefault(f["commit"], []).append(f)
    out_path = os.path.join(V, "fix_regress.json")
    results = json.load(open(out_path)) if os.path.exists(out_path) else {}
    for commit, entries in by_commit.items():
        if args and commit not in args: continue
        wt = f"/tmp/fix-regress-{commit}"
        sh(["git", "-C", REPO, "worktree", "remove", "--force", wt])
        sh(["git", "-C", REPO, "worktree", "add", "--detach", wt, "HEAD"])
        res = {"commit": commit, "tier": tier, "repo_head": sh(["git", "-C", REPO, "rev-parse", "--short", "HEAD"]).stdout.strip(), "checks": {}}
        try:
            r = sh(["git", "-C", wt, "revert", "--no-commit", commit])
            if r.returncode != 0:
                res["error"] = "revert does not apply cleanly: " + r.stdout[-300:]
            else:
                for prop in sorted({e["property"] for e in entries}):
                    if prop in skip: continue
                    t0 = time.time()
                    p = sh([os.path.join(V, "check"), prop, "--tier", tier], cwd=V, env=dict(os.environ, VERIF_REPO=wt, VERIF_SEED=os.environ.get("VERIF_SEED", "1")))
                    viol = [l for l in p.stdout.splitlines() if l.startswith("VIOLATION")]
                    if viol: harvest(prop, viol, f"revert of fix {commit} ({tier})")
                    res["checks"][prop] = {"exit": p.returncode, "violations": viol[:6], "wall_s": round(time.time() - t0, 1),
                                           "expected_classes": [e["class"] for e in entries if e["property"] == prop]}
        finally:
            sh(["git", "-C", REPO, "worktree", "remove", "--force", wt])
            sh(["git", "-C", REPO, "worktree", "prune"])
        res["reported_again"] = {c: bool(v["exit"] != 0 and v["violations"]) for c, v in res["checks"].items()}
        results[commit + ":" + tier] = res
        json.dump(results, open(out_path, "w"), indent=1)
        print(commit, res.get("error", ""), res["reported_again"], flush=True)


if __name__ == "__main__":
    main()
